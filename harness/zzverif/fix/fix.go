// Package fix holds the schemas and models shared by the /verif harnesses (overlay-only package).
package fix

import (
	"encoding/json"

	"github.com/ovn-org/libovsdb/model"
	"github.com/ovn-org/libovsdb/ovsdb"
)

// Row UUIDs are concrete, distinct and valid.
const (
	U1 = "11111111-1111-4111-8111-111111111111"
	U2 = "22222222-2222-4222-8222-222222222222"
	U3 = "33333333-3333-4333-8333-333333333333"
	U4 = "44444444-4444-4444-8444-444444444444"
	U5 = "55555555-5555-4555-8555-555555555555"
)

// SchemaS1: one root table with one column of every non-reference shape.
const SchemaS1 = `{"name":"V","version":"1.0.0","tables":{
 "Root":{"isRoot":true,"indexes":[["name"]],"columns":{
   "name":{"type":"string"},
   "num":{"type":"integer"},
   "ratio":{"type":"real"},
   "flag":{"type":"boolean"},
   "tag":{"type":{"key":"string","min":0,"max":1}},
   "onum":{"type":{"key":"integer","min":0,"max":1}},
   "labels":{"type":{"key":"string","min":0,"max":"unlimited"}},
   "nums":{"type":{"key":"integer","min":0,"max":"unlimited"}},
   "conf":{"type":{"key":"string","value":"string","min":0,"max":"unlimited"}},
   "cnt":{"type":{"key":"string","value":"integer","min":0,"max":"unlimited"}},
   "mode":{"type":{"key":{"type":"string","enum":["set",["a","b","c"]]}}},
   "imm":{"type":"string","mutable":false}
 }}}}`

// Root maps SchemaS1's Root table (plain struct: cloned through JSON, compared with DeepEqual).
type Root struct {
	UUID   string            `ovsdb:"_uuid"`
	Name   string            `ovsdb:"name"`
	Num    int               `ovsdb:"num"`
	Ratio  float64           `ovsdb:"ratio"`
	Flag   bool              `ovsdb:"flag"`
	Tag    *string           `ovsdb:"tag"`
	ONum   *int              `ovsdb:"onum"`
	Labels []string          `ovsdb:"labels"`
	Nums   []int             `ovsdb:"nums"`
	Conf   map[string]string `ovsdb:"conf"`
	Cnt    map[string]int    `ovsdb:"cnt"`
	Mode   string            `ovsdb:"mode"`
	Imm    string            `ovsdb:"imm"`
}

// MustSchema parses a schema text.
func MustSchema(text string) ovsdb.DatabaseSchema {
	var s ovsdb.DatabaseSchema
	if err := json.Unmarshal([]byte(text), &s); err != nil {
		panic("fix: schema: " + err.Error())
	}
	return s
}

// DBModelS1 builds the database model for SchemaS1.
func DBModelS1() model.DatabaseModel {
	cm, err := model.NewClientDBModel("V", map[string]model.Model{"Root": &Root{}})
	if err != nil {
		panic("fix: " + err.Error())
	}
	dbm, errs := model.NewDatabaseModel(MustSchema(SchemaS1), cm)
	if len(errs) > 0 {
		panic("fix: " + errs[0].Error())
	}
	return dbm
}

// SchemaS2: one column of every shape the library maps (C09).
const SchemaS2 = `{"name":"V","version":"1.0.0","tables":{
 "All":{"isRoot":true,"columns":{
   "i":{"type":"integer"},"r":{"type":"real"},"b":{"type":"boolean"},"s":{"type":"string"},"u":{"type":"uuid"},
   "e":{"type":{"key":{"type":"string","enum":["set",["a","b","c"]]}}},
   "one":{"type":{"key":"string","min":1,"max":1}},
   "oi":{"type":{"key":"integer","min":0,"max":1}},
   "os":{"type":{"key":"string","min":0,"max":1}},
   "ou":{"type":{"key":"uuid","min":0,"max":1}},
   "ob":{"type":{"key":"boolean","min":0,"max":1}},
   "or":{"type":{"key":"real","min":0,"max":1}},
   "si":{"type":{"key":"integer","min":0,"max":"unlimited"}},
   "ss":{"type":{"key":"string","min":0,"max":"unlimited"}},
   "su":{"type":{"key":"uuid","min":0,"max":"unlimited"}},
   "sr":{"type":{"key":"real","min":0,"max":"unlimited"}},
   "mss":{"type":{"key":"string","value":"string","min":0,"max":"unlimited"}},
   "msi":{"type":{"key":"string","value":"integer","min":0,"max":"unlimited"}},
   "mis":{"type":{"key":"integer","value":"string","min":0,"max":"unlimited"}},
   "msu":{"type":{"key":"string","value":"uuid","min":0,"max":"unlimited"}},
   "mus":{"type":{"key":"uuid","value":"string","min":0,"max":"unlimited"}},
   "msr":{"type":{"key":"string","value":"real","min":0,"max":"unlimited"}},
   "msb":{"type":{"key":"string","value":"boolean","min":0,"max":"unlimited"}}
 }}}}`

// All maps SchemaS2's table.
type All struct {
	UUID string             `ovsdb:"_uuid"`
	I    int                `ovsdb:"i"`
	R    float64            `ovsdb:"r"`
	B    bool               `ovsdb:"b"`
	S    string             `ovsdb:"s"`
	U    string             `ovsdb:"u"`
	E    string             `ovsdb:"e"`
	One  string             `ovsdb:"one"`
	OI   *int               `ovsdb:"oi"`
	OS   *string            `ovsdb:"os"`
	OU   *string            `ovsdb:"ou"`
	OB   *bool              `ovsdb:"ob"`
	OR   *float64           `ovsdb:"or"`
	SI   []int              `ovsdb:"si"`
	SS   []string           `ovsdb:"ss"`
	SU   []string           `ovsdb:"su"`
	SR   []float64          `ovsdb:"sr"`
	MSS  map[string]string  `ovsdb:"mss"`
	MSI  map[string]int     `ovsdb:"msi"`
	MIS  map[int]string     `ovsdb:"mis"`
	MSU  map[string]string  `ovsdb:"msu"`
	MUS  map[string]string  `ovsdb:"mus"`
	MSR  map[string]float64 `ovsdb:"msr"`
	MSB  map[string]bool    `ovsdb:"msb"`
}

// DBModelS2 builds the database model for SchemaS2.
func DBModelS2() model.DatabaseModel {
	cm, err := model.NewClientDBModel("V", map[string]model.Model{"All": &All{}})
	if err != nil {
		panic("fix: " + err.Error())
	}
	dbm, errs := model.NewDatabaseModel(MustSchema(SchemaS2), cm)
	if len(errs) > 0 {
		panic("fix: " + errs[0].Error())
	}
	return dbm
}

// SchemaS3: index configurations (C05, C06, C08b).
const SchemaS3 = `{"name":"V","version":"1.0.0","tables":{
 "Root":{"isRoot":true,"indexes":[["name"],["alt","num"]],"columns":{
   "name":{"type":"string"},
   "alt":{"type":"string"},
   "num":{"type":"integer"},
   "tag":{"type":{"key":"string","min":0,"max":1}},
   "conf":{"type":{"key":"string","value":"string","min":0,"max":"unlimited"}}
 }}}}`

// Row3 maps SchemaS3's Root table.
type Row3 struct {
	UUID string            `ovsdb:"_uuid"`
	Name string            `ovsdb:"name"`
	Alt  string            `ovsdb:"alt"`
	Num  int               `ovsdb:"num"`
	Tag  *string           `ovsdb:"tag"`
	Conf map[string]string `ovsdb:"conf"`
}

// ClientModelS3 returns the client model with the given client indexes.
func ClientModelS3(indexes []model.ClientIndex) model.ClientDBModel {
	cm, err := model.NewClientDBModel("V", map[string]model.Model{"Root": &Row3{}})
	if err != nil {
		panic("fix: " + err.Error())
	}
	if len(indexes) > 0 {
		cm.SetIndexes(map[string][]model.ClientIndex{"Root": indexes})
	}
	return cm
}

// DBModelS3 builds the database model for SchemaS3 with the given client indexes.
func DBModelS3(indexes []model.ClientIndex) model.DatabaseModel {
	dbm, errs := model.NewDatabaseModel(MustSchema(SchemaS3), ClientModelS3(indexes))
	if len(errs) > 0 {
		panic("fix: " + errs[0].Error())
	}
	return dbm
}

// SchemaS4: references (C04, C02, C07, C01).
const SchemaS4 = `{"name":"V","version":"1.0.0","tables":{
 "Root":{"isRoot":true,"indexes":[["name"]],"columns":{
   "name":{"type":"string"},
   "num":{"type":"integer"},
   "kids":{"type":{"key":{"type":"uuid","refTable":"Child","refType":"strong"},"min":0,"max":"unlimited"}},
   "wk":{"type":{"key":{"type":"uuid","refTable":"Child","refType":"weak"},"min":0,"max":"unlimited"}},
   "wopt":{"type":{"key":{"type":"uuid","refTable":"Child","refType":"weak"},"min":0,"max":1}},
   "byk":{"type":{"key":{"type":"uuid","refTable":"Child","refType":"strong"},"value":"string","min":0,"max":"unlimited"}},
   "byv":{"type":{"key":"string","value":{"type":"uuid","refTable":"Child","refType":"weak"},"min":0,"max":"unlimited"}}
 }},
 "Lim":{"isRoot":true,"columns":{
   "wk1":{"type":{"key":{"type":"uuid","refTable":"Child","refType":"weak"},"min":1,"max":"unlimited"}}
 }},
 "Child":{"columns":{
   "name":{"type":"string"},
   "next":{"type":{"key":{"type":"uuid","refTable":"Child","refType":"strong"},"min":0,"max":1}}
 }}}}`

// Root4, Lim4, Child4 map SchemaS4.
type Root4 struct {
	UUID string            `ovsdb:"_uuid"`
	Name string            `ovsdb:"name"`
	Num  int               `ovsdb:"num"`
	Kids []string          `ovsdb:"kids"`
	Wk   []string          `ovsdb:"wk"`
	Wopt *string           `ovsdb:"wopt"`
	Byk  map[string]string `ovsdb:"byk"`
	Byv  map[string]string `ovsdb:"byv"`
}

type Lim4 struct {
	UUID string   `ovsdb:"_uuid"`
	Wk1  []string `ovsdb:"wk1"`
}

type Child4 struct {
	UUID string  `ovsdb:"_uuid"`
	Name string  `ovsdb:"name"`
	Next *string `ovsdb:"next"`
}

// Child UUIDs.
const (
	C1 = "c1c1c1c1-1111-4111-8111-111111111111"
	C2 = "c2c2c2c2-2222-4222-8222-222222222222"
	C3 = "c3c3c3c3-3333-4333-8333-333333333333"
	L1 = "a1a1a1a1-1111-4111-8111-111111111111"
	// Dangling names no row.
	Dangling = "dddddddd-dddd-4ddd-8ddd-dddddddddddd"
)

// ClientModelS4 returns the client model for SchemaS4.
func ClientModelS4() model.ClientDBModel {
	cm, err := model.NewClientDBModel("V", map[string]model.Model{"Root": &Root4{}, "Lim": &Lim4{}, "Child": &Child4{}})
	if err != nil {
		panic("fix: " + err.Error())
	}
	return cm
}

// DBModelS4 builds the database model for SchemaS4.
func DBModelS4() model.DatabaseModel {
	dbm, errs := model.NewDatabaseModel(MustSchema(SchemaS4), ClientModelS4())
	if len(errs) > 0 {
		panic("fix: " + errs[0].Error())
	}
	return dbm
}

// RootC is Root with hand-written clone / equality methods (the CloneableModel / ComparableModel fast path).
type RootC struct {
	UUID   string            `ovsdb:"_uuid"`
	Name   string            `ovsdb:"name"`
	Num    int               `ovsdb:"num"`
	Ratio  float64           `ovsdb:"ratio"`
	Flag   bool              `ovsdb:"flag"`
	Tag    *string           `ovsdb:"tag"`
	ONum   *int              `ovsdb:"onum"`
	Labels []string          `ovsdb:"labels"`
	Nums   []int             `ovsdb:"nums"`
	Conf   map[string]string `ovsdb:"conf"`
	Cnt    map[string]int    `ovsdb:"cnt"`
	Mode   string            `ovsdb:"mode"`
	Imm    string            `ovsdb:"imm"`
}

func (a *RootC) DeepCopyInto(b *RootC) {
	*b = *a
	if a.Tag != nil {
		s := *a.Tag
		b.Tag = &s
	}
	if a.ONum != nil {
		s := *a.ONum
		b.ONum = &s
	}
	if a.Labels != nil {
		b.Labels = make([]string, len(a.Labels))
		copy(b.Labels, a.Labels)
	}
	if a.Nums != nil {
		b.Nums = make([]int, len(a.Nums))
		copy(b.Nums, a.Nums)
	}
	if a.Conf != nil {
		b.Conf = make(map[string]string, len(a.Conf))
		for k, v := range a.Conf {
			b.Conf[k] = v
		}
	}
	if a.Cnt != nil {
		b.Cnt = make(map[string]int, len(a.Cnt))
		for k, v := range a.Cnt {
			b.Cnt[k] = v
		}
	}
}

func (a *RootC) CloneModel() model.Model {
	b := &RootC{}
	a.DeepCopyInto(b)
	return b
}

func (a *RootC) CloneModelInto(b model.Model) {
	a.DeepCopyInto(b.(*RootC))
}

// DBModelS1C builds the database model for SchemaS1 with the hand-cloned model type.
func DBModelS1C() model.DatabaseModel {
	cm, err := model.NewClientDBModel("V", map[string]model.Model{"Root": &RootC{}})
	if err != nil {
		panic("fix: " + err.Error())
	}
	dbm, errs := model.NewDatabaseModel(MustSchema(SchemaS1), cm)
	if len(errs) > 0 {
		panic("fix: " + errs[0].Error())
	}
	return dbm
}

// SchemaS5: two non-root tables (references into the wrong table, C04).
const SchemaS5 = `{"name":"V","version":"1.0.0","tables":{
 "Root":{"isRoot":true,"columns":{
   "name":{"type":"string"},
   "mids":{"type":{"key":{"type":"uuid","refTable":"Mid","refType":"strong"},"min":0,"max":"unlimited"}},
   "wleaves":{"type":{"key":{"type":"uuid","refTable":"Leaf","refType":"weak"},"min":0,"max":"unlimited"}}
 }},
 "Mid":{"columns":{
   "name":{"type":"string"},
   "leaves":{"type":{"key":{"type":"uuid","refTable":"Leaf","refType":"strong"},"min":0,"max":"unlimited"}}
 }},
 "Leaf":{"columns":{
   "name":{"type":"string"}
 }}}}`

type Root5 struct {
	UUID    string   `ovsdb:"_uuid"`
	Name    string   `ovsdb:"name"`
	Mids    []string `ovsdb:"mids"`
	WLeaves []string `ovsdb:"wleaves"`
}

type Mid5 struct {
	UUID   string   `ovsdb:"_uuid"`
	Name   string   `ovsdb:"name"`
	Leaves []string `ovsdb:"leaves"`
}

type Leaf5 struct {
	UUID string `ovsdb:"_uuid"`
	Name string `ovsdb:"name"`
}

// Row UUIDs of SchemaS5.
const (
	M1 = "b1b1b1b1-1111-4111-8111-111111111111"
	M2 = "b2b2b2b2-2222-4222-8222-222222222222"
	F1 = "f1f1f1f1-1111-4111-8111-111111111111"
	F2 = "f2f2f2f2-2222-4222-8222-222222222222"
)

// ClientModelS5 returns the client model for SchemaS5.
func ClientModelS5() model.ClientDBModel {
	cm, err := model.NewClientDBModel("V", map[string]model.Model{"Root": &Root5{}, "Mid": &Mid5{}, "Leaf": &Leaf5{}})
	if err != nil {
		panic("fix: " + err.Error())
	}
	return cm
}
