// Package c04: referential integrity holds after every commit (overlay-only harness package).
package c04

import (
	"github.com/google/uuid"
	"github.com/ovn-org/libovsdb/database"
	"github.com/ovn-org/libovsdb/database/inmemory"
	"github.com/ovn-org/libovsdb/model"
	"github.com/ovn-org/libovsdb/ovsdb"
	rt "github.com/ovn-org/libovsdb/verifrt"
	"github.com/ovn-org/libovsdb/zzverif/fix"
)

func NewDB() database.Database {
	db := inmemory.NewDatabase(map[string]model.ClientDBModel{"V": fix.ClientModelS4()})
	if err := db.CreateDatabase("V", fix.MustSchema(fix.SchemaS4)); err != nil {
		panic(err)
	}
	return db
}

// Run executes a transaction and commits it if no result carries an error.
func Run(db database.Database, ops ...ovsdb.Operation) []*ovsdb.OperationResult {
	tx := db.NewTransaction("V")
	res, upd := tx.Transact(ops...)
	for _, r := range res {
		if r != nil && r.Error != "" {
			return res
		}
	}
	if err := db.Commit("V", uuid.New(), upd); err != nil {
		panic("commit: " + err.Error())
	}
	return res
}

func Failed(res []*ovsdb.OperationResult) bool {
	for _, r := range res {
		if r != nil && r.Error != "" {
			return true
		}
	}
	return false
}

// ---- reference state ----

type KV struct{ K, V string }

type RRoot struct {
	UUID string
	Name string
	Kids []string
	Wk   []string
	Wopt *string
	Byk  []KV // key is the reference (strong)
	Byv  []KV // value is the reference (weak)
}

type RLim struct {
	UUID string
	Wk1  []string
}

type RChild struct {
	UUID string
	Name string
	Next *string
}

type State struct {
	Roots    []*RRoot
	Lims     []*RLim
	Children []*RChild
}

func (s *State) Clone() *State {
	c := &State{}
	for _, r := range s.Roots {
		n := *r
		n.Kids = append([]string(nil), r.Kids...)
		n.Wk = append([]string(nil), r.Wk...)
		if r.Wopt != nil {
			w := *r.Wopt
			n.Wopt = &w
		}
		n.Byk = append([]KV(nil), r.Byk...)
		n.Byv = append([]KV(nil), r.Byv...)
		c.Roots = append(c.Roots, &n)
	}
	for _, l := range s.Lims {
		n := *l
		n.Wk1 = append([]string(nil), l.Wk1...)
		c.Lims = append(c.Lims, &n)
	}
	for _, ch := range s.Children {
		n := *ch
		if ch.Next != nil {
			w := *ch.Next
			n.Next = &w
		}
		c.Children = append(c.Children, &n)
	}
	return c
}

func in(x string, s []string) bool {
	for _, y := range s {
		if x == y {
			return true
		}
	}
	return false
}

func (s *State) childExists(u string) bool {
	for _, c := range s.Children {
		if c.UUID == u {
			return true
		}
	}
	return false
}

// strongTargets lists every strong reference present in the rows.
func (s *State) strongTargets() []string {
	var t []string
	for _, r := range s.Roots {
		t = append(t, r.Kids...)
		for _, e := range r.Byk {
			t = append(t, e.K)
		}
	}
	for _, c := range s.Children {
		if c.Next != nil {
			t = append(t, *c.Next)
		}
	}
	return t
}

func noDup(s []string) bool {
	for i := range s {
		for j := i + 1; j < len(s); j++ {
			if s[i] == s[j] {
				return false
			}
		}
	}
	return true
}

// WellFormed: sets have no duplicate elements, maps no duplicate keys (a column value is a set / a map).
func (s *State) WellFormed() bool {
	for _, r := range s.Roots {
		if !noDup(r.Kids) || !noDup(r.Wk) {
			return false
		}
		for i := range r.Byk {
			for j := i + 1; j < len(r.Byk); j++ {
				if r.Byk[i].K == r.Byk[j].K {
					return false
				}
			}
		}
		for i := range r.Byv {
			for j := i + 1; j < len(r.Byv); j++ {
				if r.Byv[i].K == r.Byv[j].K {
					return false
				}
			}
		}
	}
	for _, l := range s.Lims {
		if !noDup(l.Wk1) {
			return false
		}
	}
	return true
}

// Consistent: referential integrity as stated by the property.
func (s *State) Consistent() bool {
	for _, t := range s.strongTargets() {
		if !s.childExists(t) {
			return false
		}
	}
	st := s.strongTargets()
	for _, c := range s.Children {
		if !in(c.UUID, st) {
			return false
		}
	}
	for _, r := range s.Roots {
		for _, w := range r.Wk {
			if !s.childExists(w) {
				return false
			}
		}
		if r.Wopt != nil && !s.childExists(*r.Wopt) {
			return false
		}
		for _, e := range r.Byv {
			if !s.childExists(e.V) {
				return false
			}
		}
	}
	for _, l := range s.Lims {
		if len(l.Wk1) == 0 {
			return false
		}
		for _, w := range l.Wk1 {
			if !s.childExists(w) {
				return false
			}
		}
	}
	return true
}

// Normalize applies the commit-time rules of RFC 7047 / ovsdb-server(7): dangling strong reference -> reject;
// unreferenced non-root rows are deleted, transitively; weak references to missing rows are removed, and the
// transaction is rejected if that leaves a column below its minimum. Returns false when rejected.
func (s *State) Normalize() bool {
	for iter := 0; iter < 8; iter++ {
		changed := false
		for _, t := range s.strongTargets() {
			if !s.childExists(t) {
				return false
			}
		}
		st := s.strongTargets()
		var keep []*RChild
		for _, c := range s.Children {
			if in(c.UUID, st) {
				keep = append(keep, c)
			} else {
				changed = true
			}
		}
		s.Children = keep
		for _, r := range s.Roots {
			var wk []string
			for _, w := range r.Wk {
				if s.childExists(w) {
					wk = append(wk, w)
				} else {
					changed = true
				}
			}
			r.Wk = wk
			if r.Wopt != nil && !s.childExists(*r.Wopt) {
				r.Wopt = nil
				changed = true
			}
			var byv []KV
			for _, e := range r.Byv {
				if s.childExists(e.V) {
					byv = append(byv, e)
				} else {
					changed = true
				}
			}
			r.Byv = byv
		}
		for _, l := range s.Lims {
			var wk []string
			for _, w := range l.Wk1 {
				if s.childExists(w) {
					wk = append(wk, w)
				} else {
					changed = true
				}
			}
			l.Wk1 = wk
			if len(wk) == 0 {
				return false
			}
		}
		if !changed {
			return true
		}
	}
	rt.Assert(false, "C04: reference fixpoint bound (8 rounds) exceeded")
	return false
}

// ---- wire helpers ----

func uuidSet(s []string) ovsdb.OvsSet {
	gs := make([]interface{}, len(s))
	for i, x := range s {
		gs[i] = ovsdb.UUID{GoUUID: x}
	}
	return ovsdb.OvsSet{GoSet: gs}
}

func optSet(p *string) ovsdb.OvsSet {
	if p == nil {
		return ovsdb.OvsSet{GoSet: []interface{}{}}
	}
	return ovsdb.OvsSet{GoSet: []interface{}{ovsdb.UUID{GoUUID: *p}}}
}

func bykMap(kv []KV) ovsdb.OvsMap {
	m := map[interface{}]interface{}{}
	for _, e := range kv {
		m[ovsdb.UUID{GoUUID: e.K}] = e.V
	}
	return ovsdb.OvsMap{GoMap: m}
}

func byvMap(kv []KV) ovsdb.OvsMap {
	m := map[interface{}]interface{}{}
	for _, e := range kv {
		m[e.K] = ovsdb.UUID{GoUUID: e.V}
	}
	return ovsdb.OvsMap{GoMap: m}
}

func (r *RRoot) insertOp() ovsdb.Operation {
	return ovsdb.Operation{Op: ovsdb.OperationInsert, Table: "Root", UUID: r.UUID, Row: ovsdb.Row{"name": r.Name,
		"kids": uuidSet(r.Kids), "wk": uuidSet(r.Wk), "wopt": optSet(r.Wopt), "byk": bykMap(r.Byk), "byv": byvMap(r.Byv)}}
}

func (l *RLim) insertOp() ovsdb.Operation {
	return ovsdb.Operation{Op: ovsdb.OperationInsert, Table: "Lim", UUID: l.UUID, Row: ovsdb.Row{"wk1": uuidSet(l.Wk1)}}
}

func (c *RChild) insertOp() ovsdb.Operation {
	return ovsdb.Operation{Op: ovsdb.OperationInsert, Table: "Child", UUID: c.UUID, Row: ovsdb.Row{"name": c.Name, "next": optSet(c.Next)}}
}

func ByUUID(u string) []ovsdb.Condition {
	return []ovsdb.Condition{{Column: "_uuid", Function: ovsdb.ConditionEqual, Value: ovsdb.UUID{GoUUID: u}}}
}

func setEq(a, b []string) bool {
	if len(a) != len(b) {
		return false
	}
	for _, x := range a {
		if !in(x, b) {
			return false
		}
	}
	return true
}

func optEq(a, b *string) bool { return (a == nil && b == nil) || (a != nil && b != nil && *a == *b) }

func kvEq(kv []KV, m map[string]string) bool {
	if len(kv) != len(m) {
		return false
	}
	for _, e := range kv {
		v, ok := m[e.K]
		if !ok || v != e.V {
			return false
		}
	}
	return true
}

// Matches: the database holds exactly the reference rows.
func (s *State) Matches(db database.Database) bool {
	roots, err := db.List("V", "Root")
	if err != nil || len(roots) != len(s.Roots) {
		return false
	}
	for _, r := range s.Roots {
		m, ok := roots[r.UUID]
		if !ok {
			return false
		}
		g := m.(*fix.Root4)
		if g.Name != r.Name || !setEq(r.Kids, g.Kids) || !setEq(r.Wk, g.Wk) || !optEq(r.Wopt, g.Wopt) || !kvEq(r.Byk, g.Byk) || !kvEq(r.Byv, g.Byv) {
			return false
		}
	}
	lims, err := db.List("V", "Lim")
	if err != nil || len(lims) != len(s.Lims) {
		return false
	}
	for _, l := range s.Lims {
		m, ok := lims[l.UUID]
		if !ok || !setEq(l.Wk1, m.(*fix.Lim4).Wk1) {
			return false
		}
	}
	kids, err := db.List("V", "Child")
	if err != nil || len(kids) != len(s.Children) {
		return false
	}
	for _, c := range s.Children {
		m, ok := kids[c.UUID]
		if !ok {
			return false
		}
		g := m.(*fix.Child4)
		if g.Name != c.Name || !optEq(c.Next, g.Next) {
			return false
		}
	}
	return true
}

// IntegrityHolds checks the property's three clauses directly on the database contents.
func IntegrityHolds(db database.Database) bool {
	roots, _ := db.List("V", "Root")
	lims, _ := db.List("V", "Lim")
	kids, _ := db.List("V", "Child")
	exists := func(u string) bool { _, ok := kids[u]; return ok }
	var strong []string
	for _, m := range roots {
		g := m.(*fix.Root4)
		strong = append(strong, g.Kids...)
		for k := range g.Byk {
			strong = append(strong, k)
		}
		for _, w := range g.Wk {
			if !exists(w) {
				return false
			}
		}
		if g.Wopt != nil && !exists(*g.Wopt) {
			return false
		}
		for _, v := range g.Byv {
			if !exists(v) {
				return false
			}
		}
	}
	for _, m := range lims {
		g := m.(*fix.Lim4)
		if len(g.Wk1) == 0 {
			return false
		}
		for _, w := range g.Wk1 {
			if !exists(w) {
				return false
			}
		}
	}
	for _, m := range kids {
		if n := m.(*fix.Child4).Next; n != nil {
			strong = append(strong, *n)
		}
	}
	for _, t := range strong {
		if !exists(t) {
			return false
		}
	}
	for u := range kids {
		if !in(u, strong) {
			return false
		}
	}
	return true
}

// RefIndexMatches: the committed reference index equals the recomputation from the rows.
func (s *State) RefIndexMatches(db database.Database) bool {
	for _, c := range s.Children {
		refs, err := db.GetReferences("V", "Child", c.UUID)
		if err != nil {
			return false
		}
		// expected referencing rows per (table, column, mapValue)
		type want struct {
			spec database.ReferenceSpec
			from []string
		}
		var ws []want
		add := func(spec database.ReferenceSpec, from string) {
			for i := range ws {
				if ws[i].spec == spec {
					ws[i].from = append(ws[i].from, from)
					return
				}
			}
			ws = append(ws, want{spec, []string{from}})
		}
		for _, r := range s.Roots {
			if in(c.UUID, r.Kids) {
				add(database.ReferenceSpec{ToTable: "Child", FromTable: "Root", FromColumn: "kids"}, r.UUID)
			}
			if in(c.UUID, r.Wk) {
				add(database.ReferenceSpec{ToTable: "Child", FromTable: "Root", FromColumn: "wk"}, r.UUID)
			}
			if r.Wopt != nil && *r.Wopt == c.UUID {
				add(database.ReferenceSpec{ToTable: "Child", FromTable: "Root", FromColumn: "wopt"}, r.UUID)
			}
			for _, e := range r.Byk {
				if e.K == c.UUID {
					add(database.ReferenceSpec{ToTable: "Child", FromTable: "Root", FromColumn: "byk"}, r.UUID)
				}
			}
			for _, e := range r.Byv {
				if e.V == c.UUID {
					add(database.ReferenceSpec{ToTable: "Child", FromTable: "Root", FromColumn: "byv", FromValue: true}, r.UUID)
					break
				}
			}
		}
		for _, l := range s.Lims {
			if in(c.UUID, l.Wk1) {
				add(database.ReferenceSpec{ToTable: "Child", FromTable: "Lim", FromColumn: "wk1"}, l.UUID)
			}
		}
		for _, o := range s.Children {
			if o.Next != nil && *o.Next == c.UUID {
				add(database.ReferenceSpec{ToTable: "Child", FromTable: "Child", FromColumn: "next"}, o.UUID)
			}
		}
		n := 0
		for spec, ref := range refs {
			from := ref[c.UUID]
			if len(from) == 0 {
				continue
			}
			n++
			ok := false
			for _, w := range ws {
				if w.spec == spec && setEq(w.from, from) {
					ok = true
				}
			}
			if !ok {
				return false
			}
		}
		if n != len(ws) {
			return false
		}
	}
	return true
}

// ---- symbolic states and operations ----

// Cfg selects which reference-holding columns carry symbolic content.
type Cfg struct {
	Kids, Wk, Wopt, Byk, Byv, Next, Lim bool
	NChildren                           int
}

var childIDs = []string{fix.C1, fix.C2, fix.C3}

// symRef returns a symbolic UUID that is one of the given child UUIDs (or, if allowed, one naming no row).
func symRef(n int, dangling bool) string {
	t := rt.UUID()
	ok := false
	for i := 0; i < n; i++ {
		if t == childIDs[i] {
			ok = true
		}
	}
	if dangling && t == fix.Dangling {
		ok = true
	}
	rt.Assume(ok)
	return t
}

func symRefs(max, n int, dangling bool) []string {
	k := rt.Choose(max + 1)
	var s []string
	for i := 0; i < k; i++ {
		s = append(s, symRef(n, dangling))
	}
	return s
}

// SymState builds a symbolic committed state: one Root, optionally one Lim, cfg.NChildren children.
func SymState(cfg Cfg) *State {
	s := &State{}
	n := cfg.NChildren
	for i := 0; i < n; i++ {
		c := &RChild{UUID: childIDs[i], Name: "c"}
		if cfg.Next && rt.Choose(2) == 1 {
			t := symRef(n, false)
			c.Next = &t
		}
		s.Children = append(s.Children, c)
	}
	r := &RRoot{UUID: fix.U1, Name: "r1"}
	if cfg.Kids {
		r.Kids = symRefs(2, n, false)
	}
	if cfg.Wk {
		r.Wk = symRefs(2, n, false)
	}
	if cfg.Wopt && rt.Choose(2) == 1 {
		t := symRef(n, false)
		r.Wopt = &t
	}
	if cfg.Byk && rt.Choose(2) == 1 {
		r.Byk = []KV{{symRef(n, false), rt.String()}}
	}
	if cfg.Byv && rt.Choose(2) == 1 {
		r.Byv = []KV{{"k", symRef(n, false)}}
	}
	s.Roots = []*RRoot{r}
	if cfg.Lim {
		s.Lims = []*RLim{{UUID: fix.L1, Wk1: symRefs(2, n, false)}}
	}
	rt.Assume(s.WellFormed() && s.Consistent())
	return s
}

// Seed commits the state into a fresh database through real insert operations.
func Seed(s *State) database.Database {
	db := NewDB()
	SeedInto(db, s)
	return db
}

// SeedOps returns the insert operations that create the state.
func SeedOps(s *State) []ovsdb.Operation {
	var ops []ovsdb.Operation
	for _, c := range s.Children {
		ops = append(ops, c.insertOp())
	}
	for _, r := range s.Roots {
		ops = append(ops, r.insertOp())
	}
	for _, l := range s.Lims {
		ops = append(ops, l.insertOp())
	}
	return ops
}

// SeedInto commits the state into db.
func SeedInto(db database.Database, s *State) {
	var ops []ovsdb.Operation
	for _, c := range s.Children {
		ops = append(ops, c.insertOp())
	}
	for _, r := range s.Roots {
		ops = append(ops, r.insertOp())
	}
	for _, l := range s.Lims {
		ops = append(ops, l.insertOp())
	}
	res := Run(db, ops...)
	rt.Assert(!Failed(res), "C04: a consistent set of rows is accepted")
	rt.Assert(s.Matches(db), "C04: the seeded database holds the inserted rows")
}

// SymOp picks one reference-changing operation, applies it to the reference state and returns it in wire form.
func SymOp(s *State, cfg Cfg) ovsdb.Operation {
	n := cfg.NChildren
	r := s.Roots[0]
	var menu []int
	if cfg.Kids {
		menu = append(menu, 0, 1, 2)
	}
	if cfg.Wk {
		menu = append(menu, 3)
	}
	if cfg.Wopt {
		menu = append(menu, 4)
	}
	if cfg.Byk {
		menu = append(menu, 5)
	}
	if cfg.Byv {
		menu = append(menu, 6)
	}
	if cfg.Next {
		menu = append(menu, 7)
	}
	if cfg.Lim {
		menu = append(menu, 8)
	}
	menu = append(menu, 9, 10)
	switch menu[rt.Choose(len(menu))] {
	case 0: // replace the strong set
		v := symRefs(2, n, true)
		rt.Assume(noDup(v))
		r.Kids = append([]string(nil), v...)
		return ovsdb.Operation{Op: ovsdb.OperationUpdate, Table: "Root", Where: ByUUID(r.UUID), Row: ovsdb.Row{"kids": uuidSet(v)}}
	case 1: // mutate: insert into the strong set
		x := symRef(n, true)
		if !in(x, r.Kids) {
			r.Kids = append(append([]string(nil), r.Kids...), x)
		}
		return ovsdb.Operation{Op: ovsdb.OperationMutate, Table: "Root", Where: ByUUID(r.UUID),
			Mutations: []ovsdb.Mutation{{Column: "kids", Mutator: ovsdb.MutateOperationInsert, Value: uuidSet([]string{x})}}}
	case 2: // mutate: delete from the strong set
		x := symRef(n, false)
		var keep []string
		for _, y := range r.Kids {
			if y != x {
				keep = append(keep, y)
			}
		}
		r.Kids = keep
		return ovsdb.Operation{Op: ovsdb.OperationMutate, Table: "Root", Where: ByUUID(r.UUID),
			Mutations: []ovsdb.Mutation{{Column: "kids", Mutator: ovsdb.MutateOperationDelete, Value: uuidSet([]string{x})}}}
	case 3:
		v := symRefs(2, n, false)
		rt.Assume(noDup(v))
		r.Wk = append([]string(nil), v...)
		return ovsdb.Operation{Op: ovsdb.OperationUpdate, Table: "Root", Where: ByUUID(r.UUID), Row: ovsdb.Row{"wk": uuidSet(v)}}
	case 4:
		var p *string
		if rt.Choose(2) == 1 {
			t := symRef(n, false)
			p = &t
		}
		r.Wopt = p
		return ovsdb.Operation{Op: ovsdb.OperationUpdate, Table: "Root", Where: ByUUID(r.UUID), Row: ovsdb.Row{"wopt": optSet(p)}}
	case 5:
		var kv []KV
		if rt.Choose(2) == 1 {
			kv = []KV{{symRef(n, true), rt.String()}}
		}
		r.Byk = kv
		return ovsdb.Operation{Op: ovsdb.OperationUpdate, Table: "Root", Where: ByUUID(r.UUID), Row: ovsdb.Row{"byk": bykMap(kv)}}
	case 6:
		var kv []KV
		if rt.Choose(2) == 1 {
			kv = []KV{{"k", symRef(n, false)}}
		}
		r.Byv = kv
		return ovsdb.Operation{Op: ovsdb.OperationUpdate, Table: "Root", Where: ByUUID(r.UUID), Row: ovsdb.Row{"byv": byvMap(kv)}}
	case 7: // retarget a child's strong next reference
		target := childIDs[rt.Choose(n)]
		var p *string
		if rt.Choose(2) == 1 {
			t := symRef(n, true)
			p = &t
		}
		for _, c := range s.Children {
			if c.UUID == target {
				c.Next = p
			}
		}
		return ovsdb.Operation{Op: ovsdb.OperationUpdate, Table: "Child", Where: ByUUID(target), Row: ovsdb.Row{"next": optSet(p)}}
	case 8:
		v := symRefs(2, n, false)
		rt.Assume(noDup(v) && len(v) > 0)
		s.Lims[0].Wk1 = append([]string(nil), v...)
		return ovsdb.Operation{Op: ovsdb.OperationUpdate, Table: "Lim", Where: ByUUID(fix.L1), Row: ovsdb.Row{"wk1": uuidSet(v)}}
	case 9: // delete a child row explicitly
		target := childIDs[rt.Choose(n)]
		var keep []*RChild
		for _, c := range s.Children {
			if c.UUID != target {
				keep = append(keep, c)
			}
		}
		s.Children = keep
		return ovsdb.Operation{Op: ovsdb.OperationDelete, Table: "Child", Where: ByUUID(target)}
	default: // delete the root row
		s.Roots = nil
		return ovsdb.Operation{Op: ovsdb.OperationDelete, Table: "Root", Where: ByUUID(fix.U1)}
	}
}

// scenario: a symbolic consistent state, a transaction of nOps symbolic operations, then the property.
func scenario(cfg Cfg, nOps int) {
	s := SymState(cfg)
	db := Seed(s)
	rt.Assert(IntegrityHolds(db) && s.RefIndexMatches(db), "C04: integrity and reference index hold in the seeded state")
	before := s.Clone()
	var ops []ovsdb.Operation
	rootGone := false
	for i := 0; i < nOps; i++ {
		if rootGone {
			break
		}
		ops = append(ops, SymOp(s, cfg))
		rootGone = len(s.Roots) == 0
	}
	accepted := s.WellFormed() && s.Normalize()
	res := Run(db, ops...)
	rt.Reach("ran")
	if !accepted {
		rt.Assert(Failed(res), "C04: a transaction that would leave a dangling strong reference, or a weak column below its minimum, is rejected")
		rt.Assert(before.Matches(db), "C04: a rejected transaction changes nothing")
		rt.Assert(before.RefIndexMatches(db), "C04: a rejected transaction leaves the committed reference index as it was")
		return
	}
	rt.Assert(!Failed(res), "C04: a transaction whose outcome satisfies referential integrity is accepted")
	if Failed(res) {
		return
	}
	Dump(db)
	rt.Assert(IntegrityHolds(db), "C04: after the commit every strong reference resolves, every non-root row is referenced, no weak reference dangles")
	rt.Assert(s.Matches(db), "C04: unreferenced non-root rows are deleted transitively and dangling weak references removed, nothing else")
	rt.Assert(s.RefIndexMatches(db), "C04: the committed reference index equals the references present in the rows")
}

func VerifC04Strong1() { scenario(Cfg{Kids: true, NChildren: 2}, 1) }
func VerifC04Strong2() { scenario(Cfg{Kids: true, NChildren: 2}, 2) }
func VerifC04Chain1()  { scenario(Cfg{Kids: true, Next: true, NChildren: 2}, 1) }
func VerifC04Chain2()  { scenario(Cfg{Kids: true, Next: true, NChildren: 2}, 2) }
func VerifC04Weak1()   { scenario(Cfg{Kids: true, Wk: true, Wopt: true, NChildren: 2}, 1) }
func VerifC04Weak2()   { scenario(Cfg{Kids: true, Wk: true, NChildren: 2}, 2) }

// VerifC04ChainWeak: weak references to rows that are dropped in different passes of the garbage collection.
func VerifC04ChainWeak() { scenario(Cfg{Kids: true, Next: true, Wk: true, NChildren: 2}, 2) }
func VerifC04Lim1()      { scenario(Cfg{Kids: true, Lim: true, NChildren: 2}, 1) }
func VerifC04Lim2()      { scenario(Cfg{Kids: true, Lim: true, NChildren: 2}, 2) }
func VerifC04Maps1()     { scenario(Cfg{Kids: true, Byk: true, Byv: true, NChildren: 2}, 1) }
func VerifC04Maps2()     { scenario(Cfg{Byk: true, Byv: true, NChildren: 1}, 2) }
func VerifC04Chain3()    { scenario(Cfg{Kids: true, Next: true, NChildren: 3}, 1) }

// Dump prints the database contents natively (diagnostics for replays).
func Dump(db database.Database) {
	if rt.Symbolic() {
		return
	}
	for _, t := range []string{"Root", "Lim", "Child"} {
		rows, _ := db.List("V", t)
		for u, m := range rows {
			switch g := m.(type) {
			case *fix.Root4:
				rt.Note(t+" "+u+" kids", g.Kids)
				rt.Note(t+" "+u+" wk", g.Wk)
				if g.Wopt != nil {
					rt.Note(t+" "+u+" wopt", *g.Wopt)
				}
				rt.Note(t+" "+u+" byk", g.Byk)
				rt.Note(t+" "+u+" byv", g.Byv)
			case *fix.Child4:
				if g.Next != nil {
					rt.Note(t+" "+u+" next", *g.Next)
				} else {
					rt.Note(t+" "+u+" next", "nil")
				}
				refs, _ := db.GetReferences("V", "Child", u)
				rt.Note(t+" "+u+" refs", refs)
			}
		}
	}
}
