package c04

// References into the wrong table: a reference column names a table; a UUID that belongs to a row of another
// table (stored, or inserted by the same transaction) is not a reference to an existing row.

import (
	"encoding/json"

	"github.com/ovn-org/libovsdb/database"
	"github.com/ovn-org/libovsdb/database/inmemory"
	"github.com/ovn-org/libovsdb/model"
	"github.com/ovn-org/libovsdb/ovsdb"
	rt "github.com/ovn-org/libovsdb/verifrt"
	"github.com/ovn-org/libovsdb/zzverif/fix"
)

// xState is the reference state for SchemaS5: one Root row; Mid and Leaf rows by UUID.
type xState struct {
	mids    []string // Root.mids (strong, -> Mid)
	wleaves []string // Root.wleaves (weak, -> Leaf)
	midRows []*xMid
	leaves  []string // Leaf rows
}

type xMid struct {
	uuid   string
	leaves []string // strong, -> Leaf
}

func (s *xState) mid(u string) *xMid {
	for _, m := range s.midRows {
		if m.uuid == u {
			return m
		}
	}
	return nil
}

// normalize applies the commit-time rules; false = the transaction must be rejected.
func (s *xState) normalize() bool {
	for iter := 0; iter < 6; iter++ {
		changed := false
		for _, u := range s.mids {
			if s.mid(u) == nil {
				return false
			}
		}
		for _, m := range s.midRows {
			for _, u := range m.leaves {
				if !in(u, s.leaves) {
					return false
				}
			}
		}
		var keepM []*xMid
		for _, m := range s.midRows {
			if in(m.uuid, s.mids) {
				keepM = append(keepM, m)
			} else {
				changed = true
			}
		}
		s.midRows = keepM
		var keepL []string
		for _, l := range s.leaves {
			ref := false
			for _, m := range s.midRows {
				if in(l, m.leaves) {
					ref = true
				}
			}
			if ref {
				keepL = append(keepL, l)
			} else {
				changed = true
			}
		}
		s.leaves = keepL
		var wl []string
		for _, w := range s.wleaves {
			if in(w, s.leaves) {
				wl = append(wl, w)
			} else {
				changed = true
			}
		}
		s.wleaves = wl
		if !changed {
			return true
		}
	}
	rt.Assert(false, "C04: reference fixpoint bound (6 rounds) exceeded")
	return false
}

func (s *xState) matches(db database.Database) bool {
	roots, _ := db.List("V", "Root")
	mids, _ := db.List("V", "Mid")
	leaves, _ := db.List("V", "Leaf")
	if len(roots) != 1 || len(mids) != len(s.midRows) || len(leaves) != len(s.leaves) {
		return false
	}
	r, ok := roots[fix.U1].(*fix.Root5)
	if !ok || !setEq(r.Mids, s.mids) || !setEq(r.WLeaves, s.wleaves) {
		return false
	}
	for _, m := range s.midRows {
		g, ok := mids[m.uuid].(*fix.Mid5)
		if !ok || !setEq(g.Leaves, m.leaves) {
			return false
		}
	}
	for _, l := range s.leaves {
		if _, ok := leaves[l]; !ok {
			return false
		}
	}
	return true
}

// xIntegrity: referential integrity read off the database alone.
func xIntegrity(db database.Database) bool {
	roots, _ := db.List("V", "Root")
	mids, _ := db.List("V", "Mid")
	leaves, _ := db.List("V", "Leaf")
	var midRefs, leafRefs []string
	for _, m := range roots {
		r := m.(*fix.Root5)
		for _, u := range r.Mids {
			if _, ok := mids[u]; !ok {
				return false
			}
			midRefs = append(midRefs, u)
		}
		for _, u := range r.WLeaves {
			if _, ok := leaves[u]; !ok {
				return false
			}
		}
	}
	for _, m := range mids {
		for _, u := range m.(*fix.Mid5).Leaves {
			if _, ok := leaves[u]; !ok {
				return false
			}
			leafRefs = append(leafRefs, u)
		}
	}
	for u := range mids {
		if !in(u, midRefs) {
			return false
		}
	}
	for u := range leaves {
		if !in(u, leafRefs) {
			return false
		}
	}
	return true
}

var xCandidates = []string{fix.M1, fix.M2, fix.F1, fix.F2, fix.Dangling, fix.U1}

// xRefs: a symbolic set of up to max distinct UUIDs drawn from the rows of every table and a UUID naming no row.
func xRefs(max int) []string {
	k := rt.Choose(max + 1)
	var out []string
	for i := 0; i < k; i++ {
		u := rt.UUID()
		ok := false
		for _, c := range xCandidates {
			if u == c {
				ok = true
			}
		}
		rt.Assume(ok && !in(u, out))
		out = append(out, u)
	}
	return out
}

func midInsert(m *xMid) ovsdb.Operation {
	return ovsdb.Operation{Op: ovsdb.OperationInsert, Table: "Mid", UUID: m.uuid, Row: ovsdb.Row{"name": "m", "leaves": uuidSet(m.leaves)}}
}

func leafInsert(u string) ovsdb.Operation {
	return ovsdb.Operation{Op: ovsdb.OperationInsert, Table: "Leaf", UUID: u, Row: ovsdb.Row{"name": "f"}}
}

// VerifC04CrossTable: pre-state Root [-> M1 [-> F1]] (each level optional); one transaction that may insert a
// Mid row M2 (with symbolic leaves) and a Leaf row F2 and rewrites Root.mids and/or Root.wleaves with symbolic
// sets drawn from the UUIDs of rows of all three tables (stored or just inserted) and a UUID naming no row.
func VerifC04CrossTable() {
	db := inmemory.NewDatabase(map[string]model.ClientDBModel{"V": fix.ClientModelS5()})
	if err := db.CreateDatabase("V", fix.MustSchema(fix.SchemaS5)); err != nil {
		panic(err)
	}
	s := &xState{}
	var seed []ovsdb.Operation
	if rt.Choose(2) == 1 {
		m := &xMid{uuid: fix.M1}
		if rt.Choose(2) == 1 {
			m.leaves = []string{fix.F1}
			s.leaves = []string{fix.F1}
			seed = append(seed, leafInsert(fix.F1))
			if rt.Choose(2) == 1 {
				s.wleaves = []string{fix.F1}
			}
		}
		s.midRows = []*xMid{m}
		s.mids = []string{fix.M1}
		seed = append(seed, midInsert(m))
	}
	seed = append(seed, ovsdb.Operation{Op: ovsdb.OperationInsert, Table: "Root", UUID: fix.U1,
		Row: ovsdb.Row{"name": "r", "mids": uuidSet(s.mids), "wleaves": uuidSet(s.wleaves)}})
	res := Run(db, seed...)
	rt.Assert(!Failed(res) && s.matches(db) && xIntegrity(db), "C04: a consistent set of rows is accepted and stored")
	before := &xState{mids: s.mids, wleaves: s.wleaves, leaves: s.leaves}
	for _, m := range s.midRows {
		before.midRows = append(before.midRows, &xMid{m.uuid, m.leaves})
	}

	var ops []ovsdb.Operation
	if rt.Choose(2) == 1 {
		m := &xMid{uuid: fix.M2, leaves: xRefs(1)}
		s.midRows = append(s.midRows, m)
		ops = append(ops, midInsert(m))
	}
	if rt.Choose(2) == 1 {
		s.leaves = append(append([]string(nil), s.leaves...), fix.F2)
		ops = append(ops, leafInsert(fix.F2))
	}
	row := ovsdb.Row{}
	switch rt.Choose(3) {
	case 0:
		s.mids = xRefs(2)
		row["mids"] = uuidSet(s.mids)
	case 1:
		s.wleaves = xRefs(2)
		row["wleaves"] = uuidSet(s.wleaves)
	case 2:
		s.mids = xRefs(1)
		s.wleaves = xRefs(1)
		row["mids"] = uuidSet(s.mids)
		row["wleaves"] = uuidSet(s.wleaves)
	}
	ops = append(ops, ovsdb.Operation{Op: ovsdb.OperationUpdate, Table: "Root", Where: ByUUID(fix.U1), Row: row})
	accepted := s.normalize()
	res = Run(db, ops...)
	rt.Reach("ran")
	if !accepted {
		rt.Assert(Failed(res), "C04: a strong reference to a UUID that is not a row of the referenced table is rejected")
		rt.Assert(before.matches(db), "C04: a rejected transaction changes nothing")
		return
	}
	rt.Assert(!Failed(res), "C04: a transaction whose outcome satisfies referential integrity is accepted")
	if Failed(res) {
		return
	}
	if !rt.Symbolic() {
		for _, t := range []string{"Root", "Mid", "Leaf"} {
			rows, _ := db.List("V", t)
			for u, m := range rows {
				b, _ := json.Marshal(m)
				rt.Note("db "+t+" "+u[:2], string(b))
			}
		}
	}
	rt.Assert(xIntegrity(db), "C04: after the commit every strong reference resolves in its table, every non-root row is referenced, no weak reference dangles")
	rt.Assert(s.matches(db), "C04: unreferenced non-root rows are deleted transitively and dangling weak references removed, nothing else")
}

// ---- a root table referenced only from the value position of maps ----

const schemaMV = `{"name":"V","version":"1.0.0","tables":{
 "Holder":{"isRoot":true,"columns":{
   "name":{"type":"string"},
   "strong":{"type":{"key":"string","value":{"type":"uuid","refTable":"Target","refType":"strong"},"min":0,"max":"unlimited"}},
   "weak":{"type":{"key":"string","value":{"type":"uuid","refTable":"Target","refType":"weak"},"min":0,"max":"unlimited"}}
 }},
 "Target":{"isRoot":true,"columns":{"name":{"type":"string"}}}}}`

type holderMV struct {
	UUID   string            `ovsdb:"_uuid"`
	Name   string            `ovsdb:"name"`
	Strong map[string]string `ovsdb:"strong"`
	Weak   map[string]string `ovsdb:"weak"`
}

type targetMV struct {
	UUID string `ovsdb:"_uuid"`
	Name string `ovsdb:"name"`
}

func refMap(u string) ovsdb.OvsMap {
	m := map[interface{}]interface{}{}
	if u != "" {
		m["k"] = ovsdb.UUID{GoUUID: u}
	}
	return ovsdb.OvsMap{GoMap: m}
}

// VerifC04MapValueRoot: Target rows (root table) are referenced only through map values of Holder; a transaction
// that touches only Target (delete of a referenced row) or only Holder (a reference to a row that does not exist).
func VerifC04MapValueRoot() {
	cm, err := model.NewClientDBModel("V", map[string]model.Model{"Holder": &holderMV{}, "Target": &targetMV{}})
	if err != nil {
		panic(err)
	}
	db := inmemory.NewDatabase(map[string]model.ClientDBModel{"V": cm})
	if err := db.CreateDatabase("V", fix.MustSchema(schemaMV)); err != nil {
		panic(err)
	}
	strongRef := rt.Choose(2) == 1 // which of the two columns holds the reference to M1
	row := ovsdb.Row{"name": "h"}
	if strongRef {
		row["strong"] = refMap(fix.M1)
	} else {
		row["weak"] = refMap(fix.M1)
	}
	res := Run(db,
		ovsdb.Operation{Op: ovsdb.OperationInsert, Table: "Target", UUID: fix.M1, Row: ovsdb.Row{"name": "t1"}},
		ovsdb.Operation{Op: ovsdb.OperationInsert, Table: "Target", UUID: fix.M2, Row: ovsdb.Row{"name": "t2"}},
		ovsdb.Operation{Op: ovsdb.OperationInsert, Table: "Holder", UUID: fix.U1, Row: row})
	rt.Assert(!Failed(res), "C04: a consistent set of rows is accepted")
	holder := func() *holderMV {
		hs, _ := db.List("V", "Holder")
		h, _ := hs[fix.U1].(*holderMV)
		return h
	}
	targets := func() int {
		ts, _ := db.List("V", "Target")
		return len(ts)
	}
	switch rt.Choose(3) {
	case 0: // delete the referenced row, alone
		res = Run(db, ovsdb.Operation{Op: ovsdb.OperationDelete, Table: "Target", Where: ByUUID(fix.M1)})
		rt.Reach("ran")
		if strongRef {
			rt.Assert(Failed(res), "C04: deleting a row that a map value strongly references is rejected")
			rt.Assert(targets() == 2 && holder() != nil && holder().Strong["k"] == fix.M1, "C04: a rejected transaction changes nothing")
		} else {
			rt.Assert(!Failed(res), "C04: deleting a weakly referenced row is accepted")
			rt.Assert(targets() == 1 && holder() != nil && len(holder().Weak) == 0, "C04: a weak reference held by a map value is removed with the row it pointed to")
		}
	case 1: // delete the other row: nothing references it
		res = Run(db, ovsdb.Operation{Op: ovsdb.OperationDelete, Table: "Target", Where: ByUUID(fix.M2)})
		rt.Reach("ran")
		rt.Assert(!Failed(res) && targets() == 1, "C04: deleting an unreferenced root row is accepted")
	case 2: // point the map value at a row that does not exist
		col := "weak"
		if strongRef {
			col = "strong"
		}
		res = Run(db, ovsdb.Operation{Op: ovsdb.OperationUpdate, Table: "Holder", Where: ByUUID(fix.U1), Row: ovsdb.Row{col: refMap(fix.Dangling)}})
		rt.Reach("ran")
		if strongRef {
			rt.Assert(Failed(res), "C04: a strong reference (map value) to a row that does not exist is rejected")
		} else {
			rt.Assert(!Failed(res) && holder() != nil && len(holder().Weak) == 0, "C04: a weak reference (map value) to a row that does not exist is dropped")
		}
	}
}

// VerifC04RejectedIndex: two Root rows reference the same Child; a transaction drops one of the references and is
// then rejected (for a dangling strong reference, or a duplicate index value); the committed reference index must be
// what it was, and a follow-up transaction dropping the other reference must behave accordingly.
func VerifC04RejectedIndex() {
	db := NewDB()
	kids := uuidSet([]string{fix.C1})
	res := Run(db,
		ovsdb.Operation{Op: ovsdb.OperationInsert, Table: "Child", UUID: fix.C1, Row: ovsdb.Row{"name": "c"}},
		ovsdb.Operation{Op: ovsdb.OperationInsert, Table: "Root", UUID: fix.U1, Row: ovsdb.Row{"name": "r1", "kids": kids}},
		ovsdb.Operation{Op: ovsdb.OperationInsert, Table: "Root", UUID: fix.U2, Row: ovsdb.Row{"name": "r2", "kids": kids}})
	rt.Assert(!Failed(res), "C04: a consistent set of rows is accepted")
	refsOK := func(want []string) bool {
		refs, err := db.GetReferences("V", "Child", fix.C1)
		if err != nil {
			return false
		}
		got := refs[database.ReferenceSpec{ToTable: "Child", FromTable: "Root", FromColumn: "kids"}][fix.C1]
		if !rt.Symbolic() {
			rt.Note("references", got)
		}
		return noDup(got) && setEq(got, want)
	}
	rt.Assert(refsOK([]string{fix.U1, fix.U2}), "C04: the reference index lists both referring rows")
	first := []string{fix.U1, fix.U2}[rt.Choose(2)]
	drop := ovsdb.Operation{Op: ovsdb.OperationMutate, Table: "Root", Where: ByUUID(first),
		Mutations: []ovsdb.Mutation{{Column: "kids", Mutator: ovsdb.MutateOperationDelete, Value: kids}}}
	var bad ovsdb.Operation
	switch rt.Choose(2) {
	case 0:
		bad = ovsdb.Operation{Op: ovsdb.OperationMutate, Table: "Root", Where: ByUUID(fix.U2),
			Mutations: []ovsdb.Mutation{{Column: "kids", Mutator: ovsdb.MutateOperationInsert, Value: uuidSet([]string{fix.Dangling})}}}
	case 1:
		bad = ovsdb.Operation{Op: ovsdb.OperationInsert, Table: "Root", UUID: fix.U3, Row: ovsdb.Row{"name": "r1"}}
	}
	if rt.Choose(2) == 1 {
		res = Run(db, drop, bad)
		rt.Assert(Failed(res), "C04: the transaction is rejected")
		rt.Assert(refsOK([]string{fix.U1, fix.U2}), "C04: a rejected transaction leaves the committed reference index as it was")
	}
	rt.Reach("ran")
	// the same removal, alone, is accepted and leaves the other reference
	res = Run(db, drop)
	rt.Assert(!Failed(res), "C04: dropping one of two references is accepted")
	other := fix.U1
	if first == fix.U1 {
		other = fix.U2
	}
	rt.Assert(refsOK([]string{other}), "C04: after one reference is dropped the index lists the other referring row")
	kidsRows, _ := db.List("V", "Child")
	rt.Assert(len(kidsRows) == 1, "C04: a row that is still referenced is kept")
	res = Run(db, ovsdb.Operation{Op: ovsdb.OperationMutate, Table: "Root", Where: ByUUID(other),
		Mutations: []ovsdb.Mutation{{Column: "kids", Mutator: ovsdb.MutateOperationDelete, Value: kids}}})
	rt.Assert(!Failed(res), "C04: dropping the last reference is accepted")
	kidsRows, _ = db.List("V", "Child")
	rt.Assert(len(kidsRows) == 0, "C04: a row that is no longer referenced is garbage-collected")
}
