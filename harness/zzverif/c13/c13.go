// Package c13: cached models are isolated copies; Clone and Equal keep their contract (overlay-only harness).
package c13

import (
	"github.com/ovn-org/libovsdb/cache"
	"github.com/ovn-org/libovsdb/model"
	"github.com/ovn-org/libovsdb/ovsdb"
	rt "github.com/ovn-org/libovsdb/verifrt"
	"github.com/ovn-org/libovsdb/zzverif/fix"
)

func distinct(s []string) {
	for i := range s {
		for j := i + 1; j < len(s); j++ {
			rt.Assume(s[i] != s[j])
		}
	}
}

// symRoot returns a model with symbolic contents in every reference-bearing field (slices, maps, pointers).
func symRoot(uuid string, max int) *fix.Root {
	r := &fix.Root{UUID: uuid, Name: rt.String(), Num: rt.Int(), Mode: "a"}
	if rt.Choose(2) == 1 {
		s := rt.String()
		r.Tag = &s
	}
	n := rt.Choose(max + 1)
	if n > 0 || rt.Choose(2) == 1 {
		r.Labels = make([]string, n)
		for i := range r.Labels {
			r.Labels[i] = rt.String()
		}
		distinct(r.Labels)
	}
	if rt.Choose(2) == 1 {
		r.Conf = map[string]string{rt.String(): rt.String()}
	}
	return r
}

func toC(r *fix.Root) *fix.RootC {
	c := &fix.RootC{UUID: r.UUID, Name: r.Name, Num: r.Num, Mode: r.Mode, Tag: r.Tag, Labels: r.Labels, Conf: r.Conf}
	return c
}

// isolation: every read path returns a model sharing no slice, map or pointer with the cached row, and a model
// handed to the cache can be changed afterwards without changing the cached row.
func isolation(handCloned bool) {
	var dbm model.DatabaseModel
	if handCloned {
		dbm = fix.DBModelS1C()
	} else {
		dbm = fix.DBModelS1()
	}
	tc, err := cache.NewTableCache(dbm, nil, nil)
	rt.Assert(err == nil, "C13: table cache created")
	rc := tc.Table("Root")
	src := symRoot(fix.U1, 2)
	var given model.Model = src
	if handCloned {
		given = toC(src)
	}
	rt.Assert(rc.Create(fix.U1, given, true) == nil, "C13: row created")
	internal := rc.RowsShallow()[fix.U1] // the documented read-only view of the cached row itself
	rt.Reach("created")
	rt.Assert(!rt.Shares(given, internal), "C13: a model handed to the cache shares no memory with the cached row")
	check := func(m model.Model, what string) {
		rt.Assert(m != nil, "C13: "+what+" finds the row")
		if m != nil {
			rt.Assert(!rt.Shares(m, internal), "C13: a model returned by "+what+" shares no slice, map or pointer with the cached row")
			rt.Assert(model.Equal(m, internal), "C13: a model returned by "+what+" equals the cached row")
		}
	}
	check(rc.Row(fix.U1), "Row")
	check(rc.Rows()[fix.U1], "Rows")
	var probe model.Model = &fix.Root{Name: src.Name}
	if handCloned {
		probe = &fix.RootC{Name: src.Name}
	}
	_, m, err := rc.RowByModel(probe)
	rt.Assert(err == nil, "C13: RowByModel succeeds")
	check(m, "RowByModel")
	ms, err := rc.RowsByModels([]model.Model{probe})
	rt.Assert(err == nil, "C13: RowsByModels succeeds")
	check(ms[fix.U1], "RowsByModels")
	cs, err := rc.RowsByCondition([]ovsdb.Condition{{Column: "_uuid", Function: ovsdb.ConditionEqual, Value: ovsdb.UUID{GoUUID: fix.U1}}})
	rt.Assert(err == nil, "C13: RowsByCondition succeeds")
	check(cs[fix.U1], "RowsByCondition")
	// update with a new model: the old row returned and the model given stay apart from the new cached row
	upd := symRoot(fix.U1, 1)
	var updM model.Model = upd
	if handCloned {
		updM = toC(upd)
	}
	old, err := rc.Update(fix.U1, updM, false)
	rt.Assert(err == nil && old != nil, "C13: update succeeds")
	internal2 := rc.RowsShallow()[fix.U1]
	rt.Assert(!rt.Shares(updM, internal2), "C13: a model handed to Update shares no memory with the cached row")
	if old != nil {
		rt.Assert(!rt.Shares(old, internal2), "C13: the old row returned by Update shares no memory with the new cached row")
	}
}

func VerifC13IsolationJSON() { isolation(false) }
func VerifC13IsolationHand() { isolation(true) }

func rootEq(a, b *fix.Root) bool {
	if a.UUID != b.UUID || a.Name != b.Name || a.Num != b.Num || len(a.Labels) != len(b.Labels) || len(a.Conf) != len(b.Conf) {
		return false
	}
	if (a.Tag == nil) != (b.Tag == nil) || (a.Tag != nil && *a.Tag != *b.Tag) {
		return false
	}
	for i := range a.Labels {
		if a.Labels[i] != b.Labels[i] {
			return false
		}
	}
	for k, v := range a.Conf {
		w, ok := b.Conf[k]
		if !ok || v != w {
			return false
		}
	}
	return true
}

// VerifC13CloneEqual: Clone returns an equal model sharing nothing; Equal is reflexive, symmetric and
// distinguishes models differing in one mapped field.
func VerifC13CloneEqual() {
	a := symRoot(fix.U1, 2)
	var am model.Model = a
	hand := rt.Choose(2) == 1
	if hand {
		am = toC(a)
	}
	c := model.Clone(am)
	rt.Reach("cloned")
	rt.Assert(model.Equal(am, c) && model.Equal(c, am), "C13: Clone returns a model equal to its argument")
	rt.Assert(!rt.Shares(am, c), "C13: Clone shares no slice, map or pointer with its argument")
	rt.Assert(model.Equal(am, am), "C13: Equal is reflexive")
	if !hand {
		rt.Assert(rootEq(a, c.(*fix.Root)), "C13: every mapped field of the clone has the same value")
	}
	// change exactly one mapped field of the clone
	switch which := rt.Choose(5); {
	case hand:
		cc := c.(*fix.RootC)
		switch which {
		case 0:
			v := rt.Int()
			rt.Assume(v != cc.Num)
			cc.Num = v
		case 1:
			v := rt.String()
			rt.Assume(v != cc.Name)
			cc.Name = v
		case 2:
			if cc.Tag == nil {
				s := rt.String()
				cc.Tag = &s
			} else {
				cc.Tag = nil
			}
		case 3:
			cc.Labels = append(cc.Labels, rt.String())
		case 4:
			if cc.Conf == nil {
				cc.Conf = map[string]string{}
			}
			k := rt.String()
			_, has := cc.Conf[k]
			rt.Assume(!has)
			cc.Conf[k] = rt.String()
		}
	default:
		cc := c.(*fix.Root)
		switch which {
		case 0:
			v := rt.Int()
			rt.Assume(v != cc.Num)
			cc.Num = v
		case 1:
			v := rt.String()
			rt.Assume(v != cc.Name)
			cc.Name = v
		case 2:
			if cc.Tag == nil {
				s := rt.String()
				cc.Tag = &s
			} else {
				cc.Tag = nil
			}
		case 3:
			cc.Labels = append(cc.Labels, rt.String())
		case 4:
			if cc.Conf == nil {
				cc.Conf = map[string]string{}
			}
			k := rt.String()
			_, has := cc.Conf[k]
			rt.Assume(!has)
			cc.Conf[k] = rt.String()
		}
	}
	rt.Assert(!model.Equal(am, c) && !model.Equal(c, am), "C13: Equal distinguishes models that differ in one mapped field, symmetrically")
	// and the original was not affected by changing the clone
	if !hand {
		rt.Assert(model.Equal(am, model.Clone(am)), "C13: changing a clone does not change the original")
	}
}
