// Package c09: model <-> row mapping is lossless for every column type (overlay-only harness package).
package c09

import (
	"encoding/json"
	"github.com/ovn-org/libovsdb/model"

	"github.com/ovn-org/libovsdb/mapper"
	"github.com/ovn-org/libovsdb/ovsdb"
	rt "github.com/ovn-org/libovsdb/verifrt"
	"github.com/ovn-org/libovsdb/zzverif/fix"
)

const nShapes = 23

var colNames = []string{"i", "r", "b", "s", "u", "e", "one", "oi", "os", "ou", "ob", "or", "si", "ss", "su", "sr",
	"mss", "msi", "mis", "msu", "mus", "msr", "msb"}

// wideInts: integers range over all 64 bits; otherwise they are assumed to lie within +-2^53, the range the
// JSON number path (float64) represents exactly.
var wideInts = false

func vInt() int {
	v := rt.Int()
	if !wideInts {
		rt.Assume(v >= -(1<<53) && v <= 1<<53)
	}
	return v
}

func distinctS(s []string) {
	for i := range s {
		for j := i + 1; j < len(s); j++ {
			rt.Assume(s[i] != s[j])
		}
	}
}

// fill gives field `shape` of m a symbolic value (collections of 0..max elements; nil and empty both occur).
// awkward: strings are concrete texts full of characters JSON has to escape (the byte-level encoders are then
// interpreted on them) instead of symbolic strings.
var awkward bool
var awkwardN int

const awkwardText = "\a\v\x01\x1b\x7f\"\\\n\U000e0001<&>"

func vStr() string {
	if !awkward {
		return rt.String()
	}
	awkwardN++
	return awkwardText + string(rune('a'+awkwardN))
}

func fill(m *fix.All, shape, max int) {
	n := 0
	if shape >= 12 {
		n = rt.Choose(max + 1)
	}
	nilEmpty := rt.Choose(2) == 0
	switch shape {
	case 0:
		m.I = vInt()
	case 1:
		m.R = rt.Float64()
	case 2:
		m.B = rt.Bool()
	case 3:
		m.S = vStr()
	case 4:
		m.U = rt.UUID()
	case 5:
		m.E = [...]string{"a", "b", "c"}[rt.Choose(3)]
	case 6:
		m.One = vStr()
	case 7:
		if nilEmpty {
			v := vInt()
			m.OI = &v
		}
	case 8:
		if nilEmpty {
			v := vStr()
			m.OS = &v
		}
	case 9:
		if nilEmpty {
			v := rt.UUID()
			m.OU = &v
		}
	case 10:
		if nilEmpty {
			v := rt.Bool()
			m.OB = &v
		}
	case 11:
		if nilEmpty {
			v := rt.Float64()
			m.OR = &v
		}
	case 12:
		if n > 0 || !nilEmpty {
			m.SI = make([]int, n)
		}
		for i := range m.SI {
			m.SI[i] = vInt()
		}
		for i := range m.SI {
			for j := i + 1; j < n; j++ {
				rt.Assume(m.SI[i] != m.SI[j])
			}
		}
	case 13:
		if n > 0 || !nilEmpty {
			m.SS = make([]string, n)
		}
		for i := range m.SS {
			m.SS[i] = vStr()
		}
		distinctS(m.SS)
	case 14:
		if n > 0 || !nilEmpty {
			m.SU = make([]string, n)
		}
		for i := range m.SU {
			m.SU[i] = rt.UUID()
		}
		distinctS(m.SU)
	case 15:
		if n > 0 || !nilEmpty {
			m.SR = make([]float64, n)
		}
		for i := range m.SR {
			m.SR[i] = rt.Float64()
		}
		for i := range m.SR {
			for j := i + 1; j < n; j++ {
				rt.Assume(m.SR[i] != m.SR[j])
			}
		}
	case 16, 19, 20:
		var mm map[string]string
		if n > 0 || !nilEmpty {
			mm = map[string]string{}
		}
		keys := make([]string, n)
		for i := range keys {
			if shape == 20 {
				keys[i] = rt.UUID()
			} else {
				keys[i] = vStr()
			}
		}
		distinctS(keys)
		for _, k := range keys {
			if shape == 19 {
				mm[k] = rt.UUID()
			} else {
				mm[k] = vStr()
			}
		}
		switch shape {
		case 16:
			m.MSS = mm
		case 19:
			m.MSU = mm
		case 20:
			m.MUS = mm
		}
	case 17:
		if n > 0 || !nilEmpty {
			m.MSI = map[string]int{}
		}
		keys := make([]string, n)
		for i := range keys {
			keys[i] = vStr()
		}
		distinctS(keys)
		for _, k := range keys {
			m.MSI[k] = vInt()
		}
	case 18:
		if n > 0 || !nilEmpty {
			m.MIS = map[int]string{}
		}
		keys := make([]int, n)
		for i := range keys {
			keys[i] = vInt()
		}
		for i := range keys {
			for j := i + 1; j < n; j++ {
				rt.Assume(keys[i] != keys[j])
			}
		}
		for _, k := range keys {
			m.MIS[k] = vStr()
		}
	case 21:
		if n > 0 || !nilEmpty {
			m.MSR = map[string]float64{}
		}
		keys := make([]string, n)
		for i := range keys {
			keys[i] = vStr()
		}
		distinctS(keys)
		for _, k := range keys {
			m.MSR[k] = rt.Float64()
		}
	case 22:
		if n > 0 || !nilEmpty {
			m.MSB = map[string]bool{}
		}
		keys := make([]string, n)
		for i := range keys {
			keys[i] = vStr()
		}
		distinctS(keys)
		for _, k := range keys {
			m.MSB[k] = rt.Bool()
		}
	}
}

const zeroUUID = "00000000-0000-0000-0000-000000000000"

func uuidEq(a, b string) bool {
	if a == "" {
		a = zeroUUID
	}
	if b == "" {
		b = zeroUUID
	}
	return a == b
}

func inS(x string, s []string) bool {
	for _, y := range s {
		if x == y {
			return true
		}
	}
	return false
}

// same compares field `shape` of a and b (sets as sets; nil equals empty; absent uuid equals the zero uuid).
func same(a, b *fix.All, shape int) bool {
	switch shape {
	case 0:
		return a.I == b.I
	case 1:
		return a.R == b.R
	case 2:
		return a.B == b.B
	case 3:
		return a.S == b.S
	case 4:
		return uuidEq(a.U, b.U)
	case 5:
		return a.E == b.E
	case 6:
		return a.One == b.One
	case 7:
		return (a.OI == nil && b.OI == nil) || (a.OI != nil && b.OI != nil && *a.OI == *b.OI)
	case 8:
		return (a.OS == nil && b.OS == nil) || (a.OS != nil && b.OS != nil && *a.OS == *b.OS)
	case 9:
		return (a.OU == nil && b.OU == nil) || (a.OU != nil && b.OU != nil && *a.OU == *b.OU)
	case 10:
		return (a.OB == nil && b.OB == nil) || (a.OB != nil && b.OB != nil && *a.OB == *b.OB)
	case 11:
		return (a.OR == nil && b.OR == nil) || (a.OR != nil && b.OR != nil && *a.OR == *b.OR)
	case 12:
		if len(a.SI) != len(b.SI) {
			return false
		}
		for _, x := range a.SI {
			found := false
			for _, y := range b.SI {
				if x == y {
					found = true
				}
			}
			if !found {
				return false
			}
		}
		return true
	case 13:
		if len(a.SS) != len(b.SS) {
			return false
		}
		for _, x := range a.SS {
			if !inS(x, b.SS) {
				return false
			}
		}
		return true
	case 14:
		if len(a.SU) != len(b.SU) {
			return false
		}
		for _, x := range a.SU {
			if !inS(x, b.SU) {
				return false
			}
		}
		return true
	case 15:
		if len(a.SR) != len(b.SR) {
			return false
		}
		for _, x := range a.SR {
			found := false
			for _, y := range b.SR {
				if x == y {
					found = true
				}
			}
			if !found {
				return false
			}
		}
		return true
	case 16:
		return mapEq(a.MSS, b.MSS)
	case 19:
		return mapEq(a.MSU, b.MSU)
	case 20:
		return mapEq(a.MUS, b.MUS)
	case 17:
		if len(a.MSI) != len(b.MSI) {
			return false
		}
		for k, v := range a.MSI {
			w, ok := b.MSI[k]
			if !ok || v != w {
				return false
			}
		}
		return true
	case 18:
		if len(a.MIS) != len(b.MIS) {
			return false
		}
		for k, v := range a.MIS {
			w, ok := b.MIS[k]
			if !ok || v != w {
				return false
			}
		}
		return true
	case 21:
		if len(a.MSR) != len(b.MSR) {
			return false
		}
		for k, v := range a.MSR {
			w, ok := b.MSR[k]
			if !ok || v != w {
				return false
			}
		}
		return true
	case 22:
		if len(a.MSB) != len(b.MSB) {
			return false
		}
		for k, v := range a.MSB {
			w, ok := b.MSB[k]
			if !ok || v != w {
				return false
			}
		}
		return true
	}
	panic("shape")
}

func mapEq(a, b map[string]string) bool {
	if len(a) != len(b) {
		return false
	}
	for k, v := range a {
		w, ok := b[k]
		if !ok || v != w {
			return false
		}
	}
	return true
}

func roundTrip(shape, max int) {
	dbm := fix.DBModelS2()
	src := &fix.All{UUID: fix.U1, E: "a"}
	fill(src, shape, max)
	info, err := dbm.NewModelInfo(src)
	rt.Assert(err == nil, "C09: model info for a model of the database model")
	row, err := dbm.Mapper.NewRow(info)
	rt.Assert(err == nil, "C09: a well-typed model converts to a row")
	data, err := json.Marshal(row)
	rt.Assert(err == nil, "C09: the row encodes")
	var back ovsdb.Row
	err = json.Unmarshal(data, &back)
	rt.Assert(err == nil, "C09: the row decodes")
	dst := &fix.All{E: "a"}
	dinfo, _ := dbm.NewModelInfo(dst)
	err = dbm.Mapper.GetRowData(&back, dinfo)
	rt.Reach("mapped-back")
	rt.Assert(err == nil, "C09: the decoded row maps back into a model")
	suffix := ""
	if wideInts {
		suffix = " (integers over the whole 64-bit range)"
	}
	rt.Assert(same(src, dst, shape), "C09: model -> row -> JSON -> row -> model preserves the "+colNames[shape]+" column"+suffix)
	// every other field is untouched (absent columns leave fields alone)
	for other := 0; other < nShapes; other++ {
		if other != shape && other != 5 {
			rt.Assert(same(&fix.All{}, dst, other), "C09: columns absent from the row leave their fields untouched")
		}
	}
}

func VerifC09RoundTrip1() { roundTrip(rt.Choose(nShapes), 1) }

// VerifC09WideInts: the integer-bearing shapes with integers over the whole 64-bit range.
func VerifC09WideInts() {
	wideInts = true
	roundTrip([...]int{0, 7, 12, 17, 18}[rt.Choose(5)], 1)
}

// VerifC09Awkward: the string-bearing shapes with strings of control characters, quotes, non-BMP runes.
func VerifC09Awkward() {
	awkward = true
	// s, one, os, ss, mss, msi, mis, msu, mus, msr, msb
	shapes := []int{3, 6, 8, 13, 16, 17, 18, 19, 20, 21, 22}
	roundTrip(shapes[rt.Choose(len(shapes))], 2)
}

func VerifC09RoundTrip2() { roundTrip(rt.Choose(nShapes), 2) }

// VerifC09Untouched: a row naming one column changes that field only; fields of absent columns keep prior values.
func VerifC09Untouched() {
	dbm := fix.DBModelS2()
	pre := rt.Int()
	preS := rt.String()
	dst := &fix.All{I: pre, S: preS, SS: []string{preS}, E: "a"}
	dinfo, _ := dbm.NewModelInfo(dst)
	row := ovsdb.Row{}
	which := rt.Choose(2)
	nv := rt.Int()
	ns := rt.String()
	if which == 0 {
		row["i"] = nv
	} else {
		row["s"] = ns
	}
	err := dbm.Mapper.GetRowData(&row, dinfo)
	rt.Reach("mapped")
	rt.Assert(err == nil, "C09: a one-column row maps")
	if which == 0 {
		rt.Assert(dst.I == nv && dst.S == preS, "C09: only the named column's field changes")
	} else {
		rt.Assert(dst.S == ns && dst.I == pre, "C09: only the named column's field changes")
	}
	rt.Assert(len(dst.SS) == 1 && dst.SS[0] == preS, "C09: a set field of an absent column is untouched")
}

type badInt struct {
	UUID string `ovsdb:"_uuid"`
	I    string `ovsdb:"i"` // integer column mapped to a string field
}

type badSet struct {
	UUID string `ovsdb:"_uuid"`
	SS   []int  `ovsdb:"ss"` // set of strings mapped to []int
}

type badOpt struct {
	UUID string `ovsdb:"_uuid"`
	OS   string `ovsdb:"os"` // optional string mapped to a plain string
}

// VerifC09Mismatch: a Go type that does not match the column type is rejected, never converted.
func VerifC09Mismatch() {
	schema := fix.MustSchema(fix.SchemaS2)
	ts := schema.Table("All")
	switch rt.Choose(6) {
	case 0:
		_, err := mapper.NewInfo("All", ts, &badInt{})
		rt.Reach("checked")
		rt.Assert(err != nil, "C09: integer column mapped to a string field is rejected")
	case 1:
		_, err := mapper.NewInfo("All", ts, &badSet{})
		rt.Reach("checked")
		rt.Assert(err != nil, "C09: set<string> column mapped to []int is rejected")
	case 2:
		_, err := mapper.NewInfo("All", ts, &badOpt{})
		rt.Reach("checked")
		rt.Assert(err != nil, "C09: optional column mapped to a non-pointer field is rejected")
	case 3:
		info, _ := mapper.NewInfo("All", ts, &fix.All{})
		err := info.SetField("i", rt.String())
		rt.Reach("checked")
		rt.Assert(err != nil, "C09: SetField with a value of the wrong Go type is rejected")
	case 4:
		_, err := ovsdb.NativeToOvs(ts.Column("i"), rt.String())
		rt.Reach("checked")
		rt.Assert(err != nil, "C09: NativeToOvs with a value of the wrong Go type is rejected")
	case 5:
		_, err := ovsdb.OvsToNative(ts.Column("i"), rt.String())
		rt.Reach("checked")
		rt.Assert(err != nil, "C09: OvsToNative of a string into an integer column is rejected")
	}
}

// ---- enum columns of every atomic type ----

const schemaEnums = `{"name":"V","version":"1.0.0","tables":{
 "E":{"isRoot":true,"columns":{
   "ei":{"type":{"key":{"type":"integer","enum":["set",[1,2,3]]}}},
   "er":{"type":{"key":{"type":"real","enum":["set",[0.5,1.5]]}}},
   "eb":{"type":{"key":{"type":"boolean","enum":["set",[true,false]]}}},
   "es":{"type":{"key":{"type":"string","enum":["set",["a","b"]]}}},
   "sei":{"type":{"key":{"type":"integer","enum":["set",[1,2,3]]},"min":0,"max":"unlimited"}},
   "oei":{"type":{"key":{"type":"integer","enum":["set",[1,2,3]]},"min":0,"max":1}}
 }}}}`

type enumRow struct {
	UUID string  `ovsdb:"_uuid"`
	EI   int     `ovsdb:"ei"`
	ER   float64 `ovsdb:"er"`
	EB   bool    `ovsdb:"eb"`
	ES   string  `ovsdb:"es"`
	SEI  []int   `ovsdb:"sei"`
	OEI  *int    `ovsdb:"oei"`
}

// VerifC09Enums: a model whose enum columns hold members of their enums (integer, real, boolean, string; single,
// optional and multi-valued) survives model -> row -> JSON -> row -> model.
func VerifC09Enums() {
	cm, err := model.NewClientDBModel("V", map[string]model.Model{"E": &enumRow{}})
	rt.Assert(err == nil, "C09: client model for the enum schema")
	dbm, errs := model.NewDatabaseModel(fix.MustSchema(schemaEnums), cm)
	rt.Assert(len(errs) == 0, "C09: the model validates against the enum schema")
	src := &enumRow{UUID: fix.U1, EI: 1 + rt.Choose(3), ER: []float64{0.5, 1.5}[rt.Choose(2)], EB: rt.Choose(2) == 1, ES: []string{"a", "b"}[rt.Choose(2)]}
	switch rt.Choose(3) {
	case 1:
		src.SEI = []int{2}
	case 2:
		src.SEI = []int{1, 3}
	}
	if rt.Choose(2) == 1 {
		v := 1 + rt.Choose(3)
		src.OEI = &v
	}
	info, err := dbm.NewModelInfo(src)
	rt.Assert(err == nil, "C09: model info for a model of the database model")
	row, err := dbm.Mapper.NewRow(info)
	rt.Assert(err == nil, "C09: a model holding enum members converts to a row")
	data, err := json.Marshal(row)
	rt.Assert(err == nil, "C09: the row encodes")
	var back ovsdb.Row
	rt.Assert(json.Unmarshal(data, &back) == nil, "C09: the row decodes")
	dst := &enumRow{}
	dinfo, _ := dbm.NewModelInfo(dst)
	err = dbm.Mapper.GetRowData(&back, dinfo)
	rt.Reach("mapped-back")
	rt.Assert(err == nil, "C09: the decoded row maps back into a model")
	same := dst.EI == src.EI && dst.ER == src.ER && dst.EB == src.EB && dst.ES == src.ES && len(dst.SEI) == len(src.SEI) &&
		((dst.OEI == nil && src.OEI == nil) || (dst.OEI != nil && src.OEI != nil && *dst.OEI == *src.OEI))
	for i := range src.SEI {
		same = same && i < len(dst.SEI) && dst.SEI[i] == src.SEI[i]
	}
	rt.Assert(same, "C09: model -> row -> JSON -> row -> model preserves enum columns of every atomic type")
}
