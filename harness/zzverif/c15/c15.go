// Package c15: named UUIDs resolve consistently within a transaction (overlay-only harness package).
package c15

import (
	"encoding/json"

	"github.com/ovn-org/libovsdb/database"
	"github.com/ovn-org/libovsdb/database/inmemory"
	"github.com/ovn-org/libovsdb/model"
	"github.com/ovn-org/libovsdb/ovsdb"
	rt "github.com/ovn-org/libovsdb/verifrt"
	"github.com/ovn-org/libovsdb/zzverif/c04"
	"github.com/ovn-org/libovsdb/zzverif/fix"
)

func named(n string) ovsdb.UUID { return ovsdb.UUID{GoUUID: n} }

func set1(n string) ovsdb.OvsSet { return ovsdb.OvsSet{GoSet: []interface{}{named(n)}} }

type inmemoryDB struct{ db database.Database }

// symName is a symbolic uuid-name: any string that is not itself a valid UUID.
func symName() string {
	s := rt.String()
	rt.Assume(!rt.IsUUID(s) && s != "")
	return s
}

// wire passes the operations through their JSON encoding, as a server receives them (a one-element set arrives
// as the bare element).
func wire(ops []ovsdb.Operation) []ovsdb.Operation {
	out := make([]ovsdb.Operation, len(ops))
	for i := range ops {
		b, err := json.Marshal(ops[i])
		if err != nil {
			panic(err)
		}
		if err := json.Unmarshal(b, &out[i]); err != nil {
			panic(err)
		}
	}
	return out
}

// resolve: one named insert of a Child and one use of the name in position pos of a Root insert (or of a
// later operation), in either order, with or without an explicit UUID on the named insert.
func resolve(pos int) {
	db := c04.NewDB()
	name := symName()
	text := rt.String() // a string column that may carry text equal to the name
	explicit := rt.Choose(2) == 1
	child := ovsdb.Operation{Op: ovsdb.OperationInsert, Table: "Child", UUIDName: name, Row: ovsdb.Row{"name": text}}
	if explicit {
		child.UUID = fix.C1
	}
	row := ovsdb.Row{"name": text, "kids": set1(name)}
	switch pos {
	case 1:
		row["wopt"] = set1(name)
	case 2:
		row["byk"] = ovsdb.OvsMap{GoMap: map[interface{}]interface{}{named(name): "v"}}
		delete(row, "kids") // the map key is the only (strong) reference
	case 3:
		row["byv"] = ovsdb.OvsMap{GoMap: map[interface{}]interface{}{"k": named(name)}}
	case 4:
		row["wk"] = ovsdb.OvsSet{GoSet: []interface{}{named(name)}}
	}
	root := ovsdb.Operation{Op: ovsdb.OperationInsert, Table: "Root", UUID: fix.U1, Row: row}
	var ops []ovsdb.Operation
	childIdx := 0
	if rt.Choose(2) == 0 {
		ops = []ovsdb.Operation{child, root}
	} else {
		ops = []ovsdb.Operation{root, child}
		childIdx = 1
	}
	switch pos {
	case 5: // a mutation argument, in a later operation
		ops = append(ops, ovsdb.Operation{Op: ovsdb.OperationMutate, Table: "Root", Where: c04.ByUUID(fix.U1),
			Mutations: []ovsdb.Mutation{{Column: "wk", Mutator: ovsdb.MutateOperationInsert, Value: set1(name)}}})
	case 6: // a condition on _uuid, in a later operation
		ops = append(ops, ovsdb.Operation{Op: ovsdb.OperationUpdate, Table: "Child", Row: ovsdb.Row{"name": "renamed"},
			Where: []ovsdb.Condition{{Column: "_uuid", Function: ovsdb.ConditionEqual, Value: named(name)}}})
	}
	if rt.Choose(2) == 1 {
		ops = wire(ops)
	}
	res := c04.Run(db, ops...)
	rt.Reach("ran")
	rt.Assert(!c04.Failed(res), "C15: a transaction using a name it defines is accepted")
	if c04.Failed(res) {
		return
	}
	got := res[childIdx].UUID.GoUUID
	rt.Assert(rt.IsUUID(got), "C15: the insert reports a UUID")
	if explicit {
		rt.Assert(got == fix.C1, "C15: an explicit UUID is the one reported")
	}
	kids, _ := db.List("V", "Child")
	cm, ok := kids[got]
	rt.Assert(ok && len(kids) == 1, "C15: the UUID reported for the insert is the UUID the row is stored under")
	roots, _ := db.List("V", "Root")
	rm, ok2 := roots[fix.U1]
	rt.Assert(ok2, "C15: the using row is stored")
	if !ok || !ok2 {
		return
	}
	r := rm.(*fix.Root4)
	c := cm.(*fix.Child4)
	rt.Assert(r.Name == text, "C15: text equal to a name in a non-UUID column is left untouched")
	if pos == 6 {
		rt.Assert(c.Name == "renamed", "C15: a name in a condition on a UUID column refers to the inserted row")
	} else {
		rt.Assert(c.Name == text, "C15: text equal to a name in a non-UUID column is left untouched")
	}
	if pos != 2 {
		rt.Assert(len(r.Kids) == 1 && r.Kids[0] == got, "C15: a name used as a set element refers to the inserted row")
	}
	switch pos {
	case 1:
		rt.Assert(r.Wopt != nil && *r.Wopt == got, "C15: a name used as an optional value refers to the inserted row")
	case 2:
		v, has := r.Byk[got]
		rt.Assert(has && v == "v" && len(r.Byk) == 1, "C15: a name used as a map key refers to the inserted row")
	case 3:
		rt.Assert(r.Byv["k"] == got && len(r.Byv) == 1, "C15: a name used as a map value refers to the inserted row")
	case 4, 5:
		rt.Assert(len(r.Wk) == 1 && r.Wk[0] == got, "C15: a name used in a weak set / a mutation argument refers to the inserted row")
	}
}

func VerifC15Set()      { resolve(0) }
func VerifC15Optional() { resolve(1) }
func VerifC15MapKey()   { resolve(2) }
func VerifC15MapValue() { resolve(3) }
func VerifC15WeakSet()  { resolve(4) }
func VerifC15Mutation() { resolve(5) }
func VerifC15Where()    { resolve(6) }

// VerifC15Two: two named inserts; a chain child -> child by name; names may collide with each other.
func VerifC15Two() {
	db := c04.NewDB()
	n1, n2 := symName(), symName()
	same := n1 == n2
	c1 := ovsdb.Operation{Op: ovsdb.OperationInsert, Table: "Child", UUIDName: n1, Row: ovsdb.Row{"name": "a", "next": set1(n2)}}
	c2 := ovsdb.Operation{Op: ovsdb.OperationInsert, Table: "Child", UUIDName: n2, Row: ovsdb.Row{"name": "b"}}
	exp := rt.Choose(3)
	if exp >= 1 {
		c1.UUID = fix.C1
	}
	if exp == 2 {
		c2.UUID = fix.C2
	}
	root := ovsdb.Operation{Op: ovsdb.OperationInsert, Table: "Root", UUID: fix.U1, Row: ovsdb.Row{"name": "r", "kids": set1(n1)}}
	res := c04.Run(db, c1, c2, root)
	rt.Reach("ran")
	if same {
		// the same name claimed by two inserts: with different UUIDs it is an error
		rt.Assert(c04.Failed(res), "C15: two inserts claiming the same name with different UUIDs are rejected")
		return
	}
	rt.Assert(!c04.Failed(res), "C15: two named inserts with distinct names are accepted")
	if c04.Failed(res) {
		return
	}
	u1, u2 := res[0].UUID.GoUUID, res[1].UUID.GoUUID
	kids, _ := db.List("V", "Child")
	k1, ok1 := kids[u1]
	_, ok2 := kids[u2]
	rt.Assert(ok1 && ok2 && len(kids) == 2 && u1 != u2, "C15: each insert is stored under the UUID reported for it")
	if ok1 {
		nx := k1.(*fix.Child4).Next
		rt.Assert(nx != nil && *nx == u2, "C15: a forward reference by name refers to the row inserted under that name")
	}
	roots, _ := db.List("V", "Root")
	if rm, ok := roots[fix.U1]; ok {
		r := rm.(*fix.Root4)
		rt.Assert(len(r.Kids) == 1 && r.Kids[0] == u1, "C15: a backward reference by name refers to the row inserted under that name")
	}
}

// VerifC15PlainTable: names used on a table that declares no UUID-typed column (only the implicit _uuid): the
// named row is selected, updated or deleted through a condition on _uuid in the same transaction.
func VerifC15PlainTable() {
	db := inmemory.NewDatabase(map[string]model.ClientDBModel{"V": fix.ClientModelS5()})
	if err := db.CreateDatabase("V", fix.MustSchema(fix.SchemaS5)); err != nil {
		panic(err)
	}
	name := symName()
	cond := []ovsdb.Condition{{Column: "_uuid", Function: ovsdb.ConditionEqual, Value: named(name)}}
	ops := []ovsdb.Operation{
		{Op: ovsdb.OperationInsert, Table: "Leaf", UUIDName: name, Row: ovsdb.Row{"name": "leaf"}},
		{Op: ovsdb.OperationInsert, Table: "Leaf", UUID: fix.F2, Row: ovsdb.Row{"name": "other"}},
		{Op: ovsdb.OperationInsert, Table: "Mid", UUID: fix.M1, Row: ovsdb.Row{"name": "m", "leaves": ovsdb.OvsSet{GoSet: []interface{}{named(name), ovsdb.UUID{GoUUID: fix.F2}}}}},
		{Op: ovsdb.OperationInsert, Table: "Root", UUID: fix.U1, Row: ovsdb.Row{"name": "r", "mids": ovsdb.OvsSet{GoSet: []interface{}{ovsdb.UUID{GoUUID: fix.M1}}}}},
	}
	kind := rt.Choose(3)
	switch kind {
	case 0:
		ops = append(ops, ovsdb.Operation{Op: ovsdb.OperationUpdate, Table: "Leaf", Where: cond, Row: ovsdb.Row{"name": "renamed"}})
	case 1:
		ops = append(ops, ovsdb.Operation{Op: ovsdb.OperationSelect, Table: "Leaf", Where: cond})
	case 2:
		ops = append(ops, ovsdb.Operation{Op: ovsdb.OperationMutate, Table: "Mid", Where: c04.ByUUID(fix.M1),
			Mutations: []ovsdb.Mutation{{Column: "leaves", Mutator: ovsdb.MutateOperationDelete, Value: set1(name)}}})
	}
	if rt.Choose(2) == 1 {
		ops = wire(ops)
	}
	res := c04.Run(db, ops...)
	rt.Reach("ran")
	rt.Assert(!c04.Failed(res), "C15: a transaction using a name it defines is accepted")
	if c04.Failed(res) {
		return
	}
	got := res[0].UUID.GoUUID
	leaves, _ := db.List("V", "Leaf")
	switch kind {
	case 0:
		rt.Assert(res[4].Count == 1, "C15: a name in a condition on _uuid selects the inserted row (update count)")
		l, ok := leaves[got]
		rt.Assert(ok && l.(*fix.Leaf5).Name == "renamed" && leaves[fix.F2].(*fix.Leaf5).Name == "other", "C15: a name in a condition on _uuid refers to the inserted row and no other")
	case 1:
		rt.Assert(len(res[4].Rows) == 1, "C15: a name in a condition on _uuid selects the inserted row (select)")
	case 2:
		rt.Assert(res[4].Count == 1, "C15: the mutation applies")
		_, ok := leaves[got]
		rt.Assert(!ok && len(leaves) == 1, "C15: a name used as a mutation argument refers to the inserted row (it is dropped from the set and garbage-collected)")
	}
}

// ---- same column name in two tables with different types; a lone insert referring to itself ----

const schemaNames = `{"name":"V","version":"1.0.0","tables":{
 "Note":{"isRoot":true,"columns":{"owner":{"type":"string"},"text":{"type":"string"}}},
 "Item":{"isRoot":true,"columns":{
   "owner":{"type":{"key":{"type":"uuid","refTable":"Boss"},"min":0,"max":1}},
   "peer":{"type":{"key":{"type":"uuid","refTable":"Item"},"min":0,"max":1}},
   "text":{"type":"string"}}},
 "Boss":{"isRoot":true,"columns":{"text":{"type":"string"}}}}}`

type noteN struct {
	UUID  string `ovsdb:"_uuid"`
	Owner string `ovsdb:"owner"`
	Text  string `ovsdb:"text"`
}

type itemN struct {
	UUID  string  `ovsdb:"_uuid"`
	Owner *string `ovsdb:"owner"`
	Peer  *string `ovsdb:"peer"`
	Text  string  `ovsdb:"text"`
}

type bossN struct {
	UUID string `ovsdb:"_uuid"`
	Text string `ovsdb:"text"`
}

func newNamesDB() *inmemoryDB {
	cm, err := model.NewClientDBModel("V", map[string]model.Model{"Note": &noteN{}, "Item": &itemN{}, "Boss": &bossN{}})
	if err != nil {
		panic(err)
	}
	db := inmemory.NewDatabase(map[string]model.ClientDBModel{"V": cm})
	if err := db.CreateDatabase("V", fix.MustSchema(schemaNames)); err != nil {
		panic(err)
	}
	return &inmemoryDB{db}
}

// VerifC15SameColumnName: a string column and a UUID column of two tables share their name; operations on both
// tables, in either order, in one transaction that uses a name in the UUID column.
func VerifC15SameColumnName() {
	d := newNamesDB()
	name := symName()
	text := rt.String() // may equal the name
	boss := ovsdb.Operation{Op: ovsdb.OperationInsert, Table: "Boss", UUIDName: name, Row: ovsdb.Row{"text": text}}
	note := ovsdb.Operation{Op: ovsdb.OperationInsert, Table: "Note", UUID: fix.U1, Row: ovsdb.Row{"owner": text, "text": text}}
	item := ovsdb.Operation{Op: ovsdb.OperationInsert, Table: "Item", UUID: fix.U2, Row: ovsdb.Row{"owner": set1(name), "text": text}}
	orders := [][]ovsdb.Operation{{boss, note, item}, {note, boss, item}, {note, item, boss}, {item, note, boss}, {boss, item, note}, {item, boss, note}}
	ops := orders[rt.Choose(len(orders))]
	if rt.Choose(2) == 1 {
		ops = wire(ops)
	}
	res := c04.Run(d.db, ops...)
	rt.Reach("ran")
	rt.Assert(!c04.Failed(res), "C15: a transaction using a name it defines is accepted")
	if c04.Failed(res) {
		return
	}
	bosses, _ := d.db.List("V", "Boss")
	rt.Assert(len(bosses) == 1, "C15: the named row is stored")
	var got string
	for u := range bosses {
		got = u
	}
	items, _ := d.db.List("V", "Item")
	notes, _ := d.db.List("V", "Note")
	it, _ := items[fix.U2].(*itemN)
	nt, _ := notes[fix.U1].(*noteN)
	rt.Assert(it != nil && it.Owner != nil && *it.Owner == got, "C15: a name in a UUID column refers to the inserted row, whatever same-named columns other tables have")
	rt.Assert(nt != nil && nt.Owner == text && nt.Text == text, "C15: text equal to a name in a non-UUID column is left untouched")
}

// VerifC15Lone: a transaction of one operation: an insert whose row refers to itself by its own name.
func VerifC15Lone() {
	d := newNamesDB()
	name := symName()
	op := ovsdb.Operation{Op: ovsdb.OperationInsert, Table: "Item", UUIDName: name, Row: ovsdb.Row{"peer": set1(name), "text": name}}
	ops := []ovsdb.Operation{op}
	if rt.Choose(2) == 1 {
		ops = wire(ops)
	}
	res := c04.Run(d.db, ops...)
	rt.Reach("ran")
	rt.Assert(!c04.Failed(res), "C15: a lone insert referring to itself by name is accepted")
	if c04.Failed(res) {
		return
	}
	items, _ := d.db.List("V", "Item")
	rt.Assert(len(items) == 1, "C15: the row is stored")
	for u, m := range items {
		it := m.(*itemN)
		rt.Assert(res[0].UUID.GoUUID == u, "C15: the UUID reported for the insert is the UUID the row is stored under")
		rt.Assert(it.Peer != nil && *it.Peer == u, "C15: a row's own name, used in its own UUID column, refers to the row itself")
		rt.Assert(it.Text == name, "C15: text equal to a name in a non-UUID column is left untouched")
	}
}
