// Package c05: cache indexes always agree with cache contents (overlay-only harness package).
package c05

import (
	"github.com/ovn-org/libovsdb/cache"
	"github.com/ovn-org/libovsdb/model"
	rt "github.com/ovn-org/libovsdb/verifrt"
	"github.com/ovn-org/libovsdb/zzverif/fix"
)

var ids = []string{fix.U1, fix.U2, fix.U3}

// index configurations: schema indexes (name) and (alt,num) always exist; client indexes by Choose.
func clientIndexes(cfg int) []model.ClientIndex {
	switch cfg {
	case 1:
		return []model.ClientIndex{{Columns: []model.ColumnKey{{Column: "tag"}}}}
	case 2:
		return []model.ClientIndex{{Columns: []model.ColumnKey{{Column: "conf", Key: "k"}}}}
	case 3:
		return []model.ClientIndex{{Columns: []model.ColumnKey{{Column: "num"}}}}
	case 5: // several columns of the same type (zero values keep their position in the tuple)
		return []model.ClientIndex{{Columns: []model.ColumnKey{{Column: "name"}, {Column: "alt"}}}}
	case 4: // overlaps a schema index
		return []model.ClientIndex{{Columns: []model.ColumnKey{{Column: "name"}}}, {Columns: []model.ColumnKey{{Column: "tag"}}}}
	}
	return nil
}

func symRow(uuid string, cfg int) *fix.Row3 {
	r := &fix.Row3{UUID: uuid, Name: rt.String(), Alt: rt.String(), Num: rt.Int()}
	switch cfg {
	case 1, 4:
		if rt.Choose(2) == 1 {
			s := rt.String()
			r.Tag = &s
		}
	case 2:
		if rt.Choose(2) == 1 {
			r.Conf = map[string]string{"k": rt.String()}
		}
	}
	return r
}

func clone(r *fix.Row3) *fix.Row3 {
	c := *r
	if r.Tag != nil {
		s := *r.Tag
		c.Tag = &s
	}
	if r.Conf != nil {
		c.Conf = map[string]string{}
		for k, v := range r.Conf {
			c.Conf[k] = v
		}
	}
	return &c
}

// legal: schema-index uniqueness (what a server ever sends).
func legal(rows []*fix.Row3) bool {
	for i := range rows {
		for j := i + 1; j < len(rows); j++ {
			if rows[i].Name == rows[j].Name {
				return false
			}
			if rows[i].Alt == rows[j].Alt && rows[i].Num == rows[j].Num {
				return false
			}
		}
	}
	return true
}

func tagEq(a, b *string) bool {
	return (a == nil && b == nil) || (a != nil && b != nil && *a == *b)
}

func rowEq(a, b *fix.Row3) bool {
	if a.UUID != b.UUID || a.Name != b.Name || a.Alt != b.Alt || a.Num != b.Num || !tagEq(a.Tag, b.Tag) || len(a.Conf) != len(b.Conf) {
		return false
	}
	for k, v := range a.Conf {
		w, ok := b.Conf[k]
		if !ok || w != v {
			return false
		}
	}
	return true
}

func find(rows []*fix.Row3, uuid string) *fix.Row3 {
	for _, r := range rows {
		if r.UUID == uuid {
			return r
		}
	}
	return nil
}

// missProbe returns a model whose schema-index columns match no row of want (so that only the client indexes
// can find anything) and whose other columns are copied from w.
func missProbe(w *fix.Row3, want []*fix.Row3) *fix.Row3 {
	p := &fix.Row3{Name: rt.String(), Alt: rt.String(), Num: w.Num}
	for _, o := range want {
		rt.Assume(p.Name != o.Name && p.Alt != o.Alt)
	}
	return p
}

func uuidsOf(m map[string]model.Model) int { return len(m) }

// checkAgainstScan: every lookup path returns exactly what a scan of `want` returns.
func checkAgainstScan(rc *cache.RowCache, want []*fix.Row3, cfg int) {
	rt.Assert(rc.Len() == len(want), "C05: the cache holds exactly the applied rows")
	// the name index maps each value to exactly the row holding it, and nothing else
	idx, err := rc.Index("name")
	rt.Assert(err == nil, "C05: the schema index exists")
	rt.Assert(len(idx) == len(want), "C05: the name index has one entry per row")
	for _, w := range want {
		uu, ok := idx[w.Name]
		rt.Assert(ok && len(uu) == 1 && uu[0] == w.UUID, "C05: the name index entry of a row points to that row")
	}
	// the (alt,num) index has one entry per row, and together the entries name every row exactly once
	idx2, err := rc.Index("alt", "num")
	rt.Assert(err == nil, "C05: the multi-column schema index exists")
	rt.Assert(len(idx2) == len(want), "C05: the (alt,num) index has one entry per row")
	seen := map[string]int{}
	for _, uu := range idx2 {
		for _, u := range uu {
			seen[u]++
		}
	}
	for _, w := range want {
		rt.Assert(seen[w.UUID] == 1, "C05: the (alt,num) index names every row exactly once")
	}
	for _, w := range want {
		got := rc.Row(w.UUID)
		rt.Assert(got != nil && rowEq(w, got.(*fix.Row3)), "C05: lookup by UUID returns the current row")
		// a copy of the row without its UUID is found through the schema indexes
		probe := clone(w)
		probe.UUID = ""
		u, m, err := rc.RowByModel(probe)
		rt.Assert(err == nil && m != nil && u == w.UUID && rowEq(w, m.(*fix.Row3)), "C05: every row is reachable through the schema indexes")
		// client indexes: the probe misses every schema index
		if (cfg == 1 || cfg == 4) && w.Tag != nil {
			t := *w.Tag
			p := missProbe(w, want)
			p.Tag = &t
			res, err := rc.RowsByModels([]model.Model{p})
			_, ok := res[w.UUID]
			rt.Assert(err == nil && ok, "C05: every row is reachable through the client index on its optional column")
			for ru, rm := range res {
				o := find(want, ru)
				rt.Assert(o != nil && o.Tag != nil && *o.Tag == t && rowEq(o, rm.(*fix.Row3)), "C05: a client index entry leads only to current rows with that value")
			}
		}
		if cfg == 2 {
			v, has := w.Conf["k"]
			if has {
				p := missProbe(w, want)
				p.Conf = map[string]string{"k": v}
				res, err := rc.RowsByModels([]model.Model{p})
				_, ok := res[w.UUID]
				rt.Assert(err == nil && ok, "C05: every row is reachable through the client index on a map key")
				for ru, rm := range res {
					o := find(want, ru)
					rt.Assert(o != nil && o.Conf["k"] == v && rowEq(o, rm.(*fix.Row3)), "C05: a map-key index entry leads only to current rows with that value")
				}
			}
		}
		if cfg == 3 {
			p := missProbe(w, want)
			res, err := rc.RowsByModels([]model.Model{p})
			_, ok := res[w.UUID]
			rt.Assert(err == nil && ok, "C05: every row is reachable through the client index on a plain column")
			for ru, rm := range res {
				o := find(want, ru)
				rt.Assert(o != nil && o.Num == w.Num && rowEq(o, rm.(*fix.Row3)), "C05: a plain client index entry leads only to current rows with that value")
			}
		}
	}
}

// checkTupleIndex: the client index over (name, alt) has one entry per distinct pair, holding exactly the rows
// with that pair.
func checkTupleIndex(rc *cache.RowCache, want []*fix.Row3) {
	idx, err := rc.Index("name", "alt")
	rt.Assert(err == nil, "C05: the two-column client index exists")
	total := 0
	for _, list := range idx {
		total += len(list)
		first := find(want, list[0])
		rt.Assert(first != nil, "C05: a two-column index entry leads to a current row")
		if first == nil {
			continue
		}
		n := 0
		for _, w := range want {
			if w.Name == first.Name && w.Alt == first.Alt {
				n++
			}
		}
		rt.Assert(n == len(list), "C05: a two-column index entry holds exactly the rows with that pair of values")
		for _, u := range list {
			o := find(want, u)
			rt.Assert(o != nil && o.Name == first.Name && o.Alt == first.Alt, "C05: rows under one two-column index entry agree on both columns")
		}
	}
	rt.Assert(total == len(want), "C05: every row is under exactly one entry of the two-column index")
}

// batch applies a batch of nChanges row changes (create / update / delete, one per row at most) in a chosen
// order to a cache holding nPre rows, from a legal state to a legal state, through the real RowCache calls
// that ApplyCacheUpdate makes.
func batch(nPre, nChanges, cfg int) {
	dbm := fix.DBModelS3(clientIndexes(cfg))
	tc, err := cache.NewTableCache(dbm, nil, nil)
	rt.Assert(err == nil, "C05: table cache created")
	rc := tc.Table("Root")
	var rows []*fix.Row3
	for i := 0; i < nPre; i++ {
		rows = append(rows, symRow(ids[i], cfg))
	}
	rt.Assume(legal(rows))
	for _, r := range rows {
		rt.Assert(rc.Create(r.UUID, r, false) == nil, "C05: creating a row of a legal state succeeds")
	}
	// the batch: change i concerns row ids[i] (update or delete if it exists, create otherwise)
	type change struct {
		kind int // 0 create, 1 update, 2 delete
		uuid string
		row  *fix.Row3
	}
	var changes []change
	after := append([]*fix.Row3(nil), rows...)
	for i := 0; i < nChanges; i++ {
		target := ids[(i+rt.Choose(3))%3]
		dup := false
		for _, c := range changes {
			if c.uuid == target {
				dup = true
			}
		}
		if dup {
			continue
		}
		if find(after, target) == nil {
			nr := symRow(target, cfg)
			changes = append(changes, change{0, target, nr})
			after = append(after, nr)
		} else if rt.Choose(2) == 0 {
			nr := symRow(target, cfg)
			changes = append(changes, change{1, target, nr})
			for k := range after {
				if after[k].UUID == target {
					after[k] = nr
				}
			}
		} else {
			changes = append(changes, change{2, target, nil})
			var keep []*fix.Row3
			for _, r := range after {
				if r.UUID != target {
					keep = append(keep, r)
				}
			}
			after = keep
		}
	}
	rt.Assume(legal(after))
	// application order: any permutation of the batch
	order := []int{0, 1, 2}[:len(changes)]
	if len(changes) == 2 && rt.Choose(2) == 1 {
		order = []int{1, 0}
	}
	if len(changes) == 3 {
		order = [][]int{{0, 1, 2}, {0, 2, 1}, {1, 0, 2}, {1, 2, 0}, {2, 0, 1}, {2, 1, 0}}[rt.Choose(6)]
	}
	for _, i := range order {
		c := changes[i]
		switch c.kind {
		case 0:
			rt.Assert(rc.Create(c.uuid, c.row, false) == nil, "C05: create inside a legal batch succeeds")
		case 1:
			_, err := rc.Update(c.uuid, c.row, false)
			rt.Assert(err == nil, "C05: update inside a legal batch succeeds")
		case 2:
			rt.Assert(rc.Delete(c.uuid) == nil, "C05: delete inside a legal batch succeeds")
		}
	}
	rt.Reach("applied")
	var want []*fix.Row3
	for _, r := range after {
		want = append(want, clone(r))
	}
	checkAgainstScan(rc, want, cfg)
	if cfg == 5 {
		checkTupleIndex(rc, want)
	}
}

func VerifC05Batch1()   { batch(rt.Choose(3), 1, rt.Choose(5)) }
func VerifC05Batch2()   { batch(2, 2, 0) }
func VerifC05Batch2C1() { batch(2, 2, 1) }
func VerifC05Batch2C2() { batch(2, 2, 2) }
func VerifC05Batch2C3() { batch(2, 2, 3) }
func VerifC05Batch2C4() { batch(2, 2, 4) }
func VerifC05Batch3()   { batch(2, 3, 0) }
func VerifC05Batch2C5() { batch(2, 2, 5) }
