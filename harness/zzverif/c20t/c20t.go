// Package c20t: type agreement between the generator and the mapper (overlay-only harness package).
package c20t

// C20 (type agreement part): for every column type the generator's field type is the Go spelling of the type the
// mapper expects (ovsdb.NativeType), with and without enum types.

import (
	"github.com/ovn-org/libovsdb/modelgen"
	"github.com/ovn-org/libovsdb/ovsdb"
	rt "github.com/ovn-org/libovsdb/verifrt"
)

var c20Atomic = []string{ovsdb.TypeInteger, ovsdb.TypeReal, ovsdb.TypeBoolean, ovsdb.TypeString, ovsdb.TypeUUID}

func c20Base(enum bool) *ovsdb.BaseType {
	b := &ovsdb.BaseType{Type: c20Atomic[rt.Choose(len(c20Atomic))]}
	if enum {
		switch b.Type {
		case ovsdb.TypeInteger:
			b.Enum = []interface{}{1, 2}
		case ovsdb.TypeReal:
			b.Enum = []interface{}{1.5, 2.5}
		case ovsdb.TypeBoolean:
			b.Enum = []interface{}{true}
		default:
			b.Enum = []interface{}{"a", "b"}
		}
	}
	return b
}

// c20Column: a symbolic column schema: any extended type, any key/value atomic types, enum or not, and arbitrary
// min / max (max also unlimited or absent).
func c20Column() *ovsdb.ColumnSchema {
	col := &ovsdb.ColumnSchema{}
	switch rt.Choose(4) {
	case 0: // atomic
		col.Type = c20Atomic[rt.Choose(len(c20Atomic))]
		if rt.Choose(2) == 1 {
			col.TypeObj = ovsdb.VerifColumnType(&ovsdb.BaseType{Type: col.Type}, nil, nil, nil)
		}
	case 1: // enum
		col.Type = ovsdb.TypeEnum
		col.TypeObj = ovsdb.VerifColumnType(c20Base(true), nil, c20Bound(), c20Bound())
	case 2: // map
		col.Type = ovsdb.TypeMap
		col.TypeObj = ovsdb.VerifColumnType(c20Base(false), c20Base(false), c20Bound(), c20Bound())
	case 3: // set (also optional and multi-valued enums)
		col.Type = ovsdb.TypeSet
		col.TypeObj = ovsdb.VerifColumnType(c20Base(rt.Choose(2) == 1), nil, c20Bound(), c20Bound())
	}
	return col
}

func c20Bound() *int {
	switch rt.Choose(3) {
	case 0:
		return nil
	case 1:
		u := ovsdb.Unlimited
		return &u
	}
	n := rt.Int()
	return &n
}

func VerifC20FieldType() {
	col := c20Column()
	want := ovsdb.NativeType(col).String()
	rt.Reach("ran")
	rt.Assert(modelgen.FieldTypeWithEnums("Tab", "col", col) == expectedWithEnums(col, want), "C20: the generated field type is the type the mapper expects, spelled with the enum alias (enum types on)")
	rt.Assert(modelgen.FieldType("Tab", "col", col) == want, "C20: the generated field type is the type the mapper expects (enum types off)")
}

// expectedWithEnums: with enum types on, the element type of an enum column is the generated enum type name.
func expectedWithEnums(col *ovsdb.ColumnSchema, native string) string {
	e := modelgen.FieldEnum("Tab", "col", col)
	if e == nil {
		return native
	}
	name := e.Alias
	switch {
	case len(native) > 2 && native[:2] == "[]":
		return "[]" + name
	case len(native) > 1 && native[:1] == "*":
		return "*" + name
	}
	return name
}
