// Package c14: cache events form a faithful, ordered change log (overlay-only harness package).
package c14

import (
	"github.com/ovn-org/libovsdb/cache"
	"github.com/ovn-org/libovsdb/model"
	"github.com/ovn-org/libovsdb/ovsdb"
	rt "github.com/ovn-org/libovsdb/verifrt"
	"github.com/ovn-org/libovsdb/zzverif/fix"
)

type ev struct {
	kind     int // 0 add, 1 update, 2 delete
	old, new *fix.Root
}

type recorder struct{ evs []ev }

func (r *recorder) handler() cache.EventHandler {
	return &cache.EventHandlerFuncs{
		AddFunc:    func(table string, m model.Model) { r.evs = append(r.evs, ev{0, nil, m.(*fix.Root)}) },
		UpdateFunc: func(table string, o, n model.Model) { r.evs = append(r.evs, ev{1, o.(*fix.Root), n.(*fix.Root)}) },
		DeleteFunc: func(table string, m model.Model) { r.evs = append(r.evs, ev{2, m.(*fix.Root), nil}) },
	}
}

func rootEq(a, b *fix.Root) bool {
	return a.UUID == b.UUID && a.Name == b.Name && a.Num == b.Num
}

var ids = []string{fix.U1, fix.U2, fix.U3}

// symBatch builds a notification (update2 encoding) with up to n row changes on distinct rows, consistent with
// the rows the cache is known to hold (have), and updates have accordingly.
func symBatch(n int, have map[string]bool) ovsdb.TableUpdates2 {
	tu := ovsdb.TableUpdate2{}
	for i := 0; i < n; i++ {
		u := ids[i]
		if rt.Choose(2) == 0 {
			continue
		}
		if !have[u] {
			row := ovsdb.Row{"name": rt.String(), "num": rt.Int(), "mode": "a"}
			tu[u] = &ovsdb.RowUpdate2{Insert: &row}
			have[u] = true
		} else if rt.Choose(2) == 0 {
			row := ovsdb.Row{"num": rt.Int()}
			tu[u] = &ovsdb.RowUpdate2{Modify: &row}
		} else {
			row := ovsdb.Row{}
			tu[u] = &ovsdb.RowUpdate2{Delete: &row}
			have[u] = false
		}
	}
	if len(tu) == 0 {
		return ovsdb.TableUpdates2{}
	}
	return ovsdb.TableUpdates2{"Root": tu}
}

// changeLog: notification batches applied to a cache with handlers registered before the history starts; the
// delivered events, replayed in order into an empty table, reproduce the cache contents.
func changeLog(nBatches, rowsPerBatch, nHandlers int) {
	dbm := fix.DBModelS1()
	tc, err := cache.NewTableCache(dbm, nil, nil)
	rt.Assert(err == nil, "C14: table cache created")
	recs := make([]*recorder, nHandlers)
	for i := range recs {
		recs[i] = &recorder{}
		tc.AddEventHandler(recs[i].handler())
	}
	stop := make(chan struct{})
	go tc.Run(stop)
	have := map[string]bool{}
	for b := 0; b < nBatches; b++ {
		batch := symBatch(rowsPerBatch, have)
		rt.Assert(tc.Populate2(batch) == nil, "C14: a notification consistent with the cache applies")
		if rt.Choose(2) == 1 {
			rt.RunPending() // the dispatcher may run between batches or only at the end
		}
	}
	rt.RunPending()
	rt.Reach("dispatched")
	// replay the first handler's events into an empty table
	table := map[string]*fix.Root{}
	for _, e := range recs[0].evs {
		switch e.kind {
		case 0:
			_, exists := table[e.new.UUID]
			rt.Assert(!exists, "C14: an add event is delivered only for a row not yet added (or deleted since)")
			table[e.new.UUID] = e.new
		case 1:
			prev, exists := table[e.new.UUID]
			rt.Assert(exists, "C14: an update event follows an add of the same row")
			if exists {
				rt.Assert(rootEq(prev, e.old), "C14: an update event's old model equals the previous state of the row")
			}
			rt.Assert(e.old.UUID == e.new.UUID, "C14: old and new of an update are the same row")
			table[e.new.UUID] = e.new
		case 2:
			prev, exists := table[e.old.UUID]
			rt.Assert(exists, "C14: a delete event follows an add of the same row")
			if exists {
				rt.Assert(rootEq(prev, e.old), "C14: a delete event carries the last state of the row")
			}
			delete(table, e.old.UUID)
		}
	}
	rows := tc.Table("Root").Rows()
	rt.Assert(len(rows) == len(table), "C14: the replayed events reproduce the cache contents (same rows)")
	for u, m := range rows {
		t, ok := table[u]
		rt.Assert(ok && rootEq(t, m.(*fix.Root)), "C14: the replayed events reproduce the cache contents (same values)")
	}
	// every handler sees the same sequence
	for _, r := range recs[1:] {
		rt.Assert(len(r.evs) == len(recs[0].evs), "C14: every handler sees the same number of events")
		for i := range r.evs {
			if i < len(recs[0].evs) {
				a, b := r.evs[i], recs[0].evs[i]
				same := a.kind == b.kind && (a.old == nil) == (b.old == nil) && (a.new == nil) == (b.new == nil)
				if same && a.old != nil {
					same = rootEq(a.old, b.old)
				}
				if same && a.new != nil {
					same = rootEq(a.new, b.new)
				}
				rt.Assert(same, "C14: every handler sees the same sequence of events")
			}
		}
	}
}

func VerifC14One()   { changeLog(1, 2, 1) }
func VerifC14Two()   { changeLog(2, 2, 2) }
func VerifC14Three() { changeLog(3, 2, 2) }
func VerifC14Wide()  { changeLog(2, 3, 1) }

// VerifC14Rejected: a change that is not applied (a modify for a row the cache does not hold) delivers no event.
func VerifC14Rejected() {
	dbm := fix.DBModelS1()
	tc, _ := cache.NewTableCache(dbm, nil, nil)
	rec := &recorder{}
	tc.AddEventHandler(rec.handler())
	stop := make(chan struct{})
	go tc.Run(stop)
	want := 0
	var err error
	switch rt.Choose(4) {
	case 0: // a modify for a row the cache does not hold
		row := ovsdb.Row{"num": rt.Int()}
		err = tc.Populate2(ovsdb.TableUpdates2{"Root": ovsdb.TableUpdate2{fix.U1: &ovsdb.RowUpdate2{Modify: &row}}})
	case 1: // a second insert of a row the cache already holds
		row := ovsdb.Row{"name": "r1", "num": rt.Int()}
		rt.Assert(tc.Populate2(ovsdb.TableUpdates2{"Root": ovsdb.TableUpdate2{fix.U1: &ovsdb.RowUpdate2{Insert: &row}}}) == nil, "C14: the first insert applies")
		want = 1
		row2 := ovsdb.Row{"name": "r1", "num": rt.Int()}
		err = tc.Populate2(ovsdb.TableUpdates2{"Root": ovsdb.TableUpdate2{fix.U1: &ovsdb.RowUpdate2{Insert: &row2}}})
	case 2: // an update-style delete of a row the cache does not hold
		row := ovsdb.Row{"name": "r1"}
		err = tc.Populate(ovsdb.TableUpdates{"Root": ovsdb.TableUpdate{fix.U1: &ovsdb.RowUpdate{Old: &row}}})
	case 3: // an update2 delete of a row the cache does not hold
		err = tc.Populate2(ovsdb.TableUpdates2{"Root": ovsdb.TableUpdate2{fix.U1: &ovsdb.RowUpdate2{Delete: &ovsdb.Row{}}}})
	}
	rt.RunPending()
	rt.Reach("dispatched")
	if err != nil {
		rt.Assert(len(rec.evs) == want, "C14: no event is delivered for a change that was not applied")
		rt.Assert(tc.Table("Root").Len() == want, "C14: the refused change is not applied")
	} else {
		// a change the cache chose to ignore: nothing changes and nothing is reported
		rt.Assert(len(rec.evs) == want && tc.Table("Root").Len() == want, "C14: a change that is ignored delivers no event")
	}
}

// VerifC14UpdateV1: notifications in the RFC 7047 `update` encoding (old rows carry only the columns that changed):
// insert, then a change of one column, then a delete; the old model of the update event is the previous state of the
// row in every column, and the delete event carries the last state.
func VerifC14UpdateV1() {
	dbm := fix.DBModelS1()
	tc, _ := cache.NewTableCache(dbm, nil, nil)
	rec := &recorder{}
	tc.AddEventHandler(rec.handler())
	stop := make(chan struct{})
	go tc.Run(stop)
	name, num := rt.String(), rt.Int()
	first := ovsdb.Row{"name": name, "num": num, "mode": "a"}
	rt.Assert(tc.Populate(ovsdb.TableUpdates{"Root": ovsdb.TableUpdate{fix.U1: &ovsdb.RowUpdate{New: &first}}}) == nil, "C14: the insert applies")
	// change one of the two columns; the old row names only that column
	var oldRow, newRow ovsdb.Row
	name2, num2 := name, num
	if rt.Choose(2) == 0 {
		num2 = rt.Int()
		rt.Assume(num2 != num)
		oldRow = ovsdb.Row{"num": num}
	} else {
		name2 = rt.String()
		rt.Assume(name2 != name)
		oldRow = ovsdb.Row{"name": name}
	}
	newRow = ovsdb.Row{"name": name2, "num": num2, "mode": "a"}
	rt.Assert(tc.Populate(ovsdb.TableUpdates{"Root": ovsdb.TableUpdate{fix.U1: &ovsdb.RowUpdate{Old: &oldRow, New: &newRow}}}) == nil, "C14: the update applies")
	last := ovsdb.Row{"name": name2, "num": num2, "mode": "a"}
	rt.Assert(tc.Populate(ovsdb.TableUpdates{"Root": ovsdb.TableUpdate{fix.U1: &ovsdb.RowUpdate{Old: &last}}}) == nil, "C14: the delete applies")
	rt.RunPending()
	rt.Reach("dispatched")
	rt.Assert(len(rec.evs) == 3 && rec.evs[0].kind == 0 && rec.evs[1].kind == 1 && rec.evs[2].kind == 2, "C14: add, update, delete are delivered in order")
	if len(rec.evs) != 3 {
		return
	}
	rt.Assert(rec.evs[0].new.Name == name && rec.evs[0].new.Num == num, "C14: the add event carries the inserted row")
	o, n := rec.evs[1].old, rec.evs[1].new
	rt.Assert(o != nil && o.UUID == fix.U1 && o.Name == name && o.Num == num, "C14: an update event's old model equals the previous state of the row (every column, also those the notification's old row omits)")
	rt.Assert(n != nil && n.Name == name2 && n.Num == num2, "C14: an update event's new model is the new state of the row")
	d := rec.evs[2].old
	rt.Assert(d != nil && d.Name == name2 && d.Num == num2, "C14: a delete event carries the last state of the row")
}
