// Package c08: selecting rows by condition is exact, with or without indexes (overlay-only harness package).
package c08

import (
	"github.com/ovn-org/libovsdb/cache"
	"github.com/ovn-org/libovsdb/model"
	"github.com/ovn-org/libovsdb/ovsdb"
	rt "github.com/ovn-org/libovsdb/verifrt"
	"github.com/ovn-org/libovsdb/zzverif/fix"
)

var ids = []string{fix.U1, fix.U2, fix.U3}

func clientIndexes(cfg int) []model.ClientIndex {
	switch cfg {
	case 1:
		return []model.ClientIndex{{Columns: []model.ColumnKey{{Column: "tag"}}}}
	case 2:
		return []model.ClientIndex{{Columns: []model.ColumnKey{{Column: "conf", Key: "k"}}}}
	case 3:
		return []model.ClientIndex{{Columns: []model.ColumnKey{{Column: "num"}}}}
	case 4:
		return []model.ClientIndex{{Columns: []model.ColumnKey{{Column: "name"}}}, {Columns: []model.ColumnKey{{Column: "num"}, {Column: "tag"}}}}
	case 5: // two keys of the same map column in one index
		return []model.ClientIndex{{Columns: []model.ColumnKey{{Column: "conf", Key: "k"}, {Column: "conf", Key: "j"}}}}
	}
	return nil
}

type cond struct {
	col  int // 0 name, 1 alt, 2 num, 3 tag, 4 conf, 5 _uuid
	fn   int
	s    string
	i    int
	tag  *string
	conf [][2]string
}

var funcs = []ovsdb.ConditionFunction{ovsdb.ConditionEqual, ovsdb.ConditionNotEqual, ovsdb.ConditionIncludes, ovsdb.ConditionExcludes,
	ovsdb.ConditionLessThan, ovsdb.ConditionLessThanOrEqual, ovsdb.ConditionGreaterThan, ovsdb.ConditionGreaterThanOrEqual}
var colName = []string{"name", "alt", "num", "tag", "conf", "_uuid"}

func tagEq(a, b *string) bool { return (a == nil && b == nil) || (a != nil && b != nil && *a == *b) }

func (c cond) holds(r *fix.Row3) bool {
	switch c.col {
	case 0:
		return [...]bool{r.Name == c.s, r.Name != c.s, r.Name == c.s, r.Name != c.s}[c.fn]
	case 1:
		return [...]bool{r.Alt == c.s, r.Alt != c.s, r.Alt == c.s, r.Alt != c.s}[c.fn]
	case 5:
		return [...]bool{r.UUID == c.s, r.UUID != c.s, r.UUID == c.s, r.UUID != c.s}[c.fn]
	case 2:
		return [...]bool{r.Num == c.i, r.Num != c.i, r.Num == c.i, r.Num != c.i, r.Num < c.i, r.Num <= c.i, r.Num > c.i, r.Num >= c.i}[c.fn]
	case 3:
		eq := tagEq(r.Tag, c.tag)
		incl := c.tag == nil || (r.Tag != nil && *r.Tag == *c.tag)
		excl := c.tag == nil || r.Tag == nil || *r.Tag != *c.tag
		return [...]bool{eq, !eq, incl, excl}[c.fn]
	case 4:
		all, none := true, true
		for _, p := range c.conf {
			v, ok := r.Conf[p[0]]
			if ok && v == p[1] {
				none = false
			} else {
				all = false
			}
		}
		eq := len(r.Conf) == len(c.conf) && all
		return [...]bool{eq, !eq, all, none}[c.fn]
	}
	panic("col")
}

func (c cond) wire() ovsdb.Condition {
	var v interface{}
	switch c.col {
	case 0, 1:
		v = c.s
	case 5:
		v = ovsdb.UUID{GoUUID: c.s}
	case 2:
		v = c.i
	case 3:
		if c.tag == nil {
			v = ovsdb.OvsSet{GoSet: []interface{}{}}
		} else {
			v = ovsdb.OvsSet{GoSet: []interface{}{*c.tag}}
		}
	case 4:
		gm := map[interface{}]interface{}{}
		for _, p := range c.conf {
			gm[p[0]] = p[1]
		}
		v = ovsdb.OvsMap{GoMap: gm}
	}
	return ovsdb.Condition{Column: colName[c.col], Function: funcs[c.fn], Value: v}
}

func symCond(cols []int) cond {
	c := cond{col: cols[rt.Choose(len(cols))]}
	switch c.col {
	case 0, 1:
		c.fn, c.s = rt.Choose(4), rt.String()
	case 5:
		c.fn, c.s = rt.Choose(4), ids[rt.Choose(3)]
	case 2:
		c.fn, c.i = rt.Choose(8), rt.Int()
	case 3:
		c.fn = rt.Choose(4)
		if rt.Choose(2) == 1 {
			s := rt.String()
			c.tag = &s
		}
	case 4:
		c.fn = rt.Choose(4)
		switch rt.Choose(3) {
		case 1:
			c.conf = [][2]string{{"k", rt.String()}}
		case 2:
			c.conf = [][2]string{{rt.String(), rt.String()}}
		}
	}
	return c
}

func symRow(uuid string, cols []int) *fix.Row3 {
	r := &fix.Row3{UUID: uuid, Name: rt.String(), Alt: rt.String(), Num: rt.Int()}
	for _, c := range cols {
		switch c {
		case 3:
			if rt.Choose(2) == 1 {
				s := rt.String()
				r.Tag = &s
			}
		case 4:
			switch rt.Choose(3) {
			case 1:
				r.Conf = map[string]string{"k": rt.String()}
			case 2:
				r.Conf = map[string]string{}
			}
		}
	}
	return r
}

func legal(rows []*fix.Row3) bool {
	for i := range rows {
		for j := i + 1; j < len(rows); j++ {
			if rows[i].Name == rows[j].Name || (rows[i].Alt == rows[j].Alt && rows[i].Num == rows[j].Num) {
				return false
			}
		}
	}
	return true
}

// selectByCondition: RowsByCondition under index configuration cfg equals the brute-force filter.
func selectByCondition(nRows, nConds, cfg int, cols []int) {
	dbm := fix.DBModelS3(clientIndexes(cfg))
	tc, err := cache.NewTableCache(dbm, nil, nil)
	rt.Assert(err == nil, "C08: table cache created")
	rc := tc.Table("Root")
	var rows []*fix.Row3
	for i := 0; i < nRows; i++ {
		rows = append(rows, symRow(ids[i], cols))
	}
	rt.Assume(legal(rows))
	for _, r := range rows {
		rt.Assert(rc.Create(r.UUID, r, true) == nil, "C08: rows of a legal state are created")
	}
	var conds []cond
	var wire []ovsdb.Condition
	for i := 0; i < nConds; i++ {
		c := symCond(append(append([]int(nil), cols...), 5))
		conds = append(conds, c)
		wire = append(wire, c.wire())
	}
	got, err := rc.RowsByCondition(wire)
	rt.Reach("selected")
	rt.Assert(err == nil, "C08: well-typed conditions are accepted")
	n := 0
	for _, r := range rows {
		want := true
		for _, c := range conds {
			if !c.holds(r) {
				want = false
			}
		}
		m, in := got[r.UUID]
		rt.Assert(in == want, "C08: a row is selected iff every condition is true for it (RFC 7047 5.1), whatever indexes exist")
		if in {
			n++
			g := m.(*fix.Row3)
			rt.Assert(g.Name == r.Name && g.Alt == r.Alt && g.Num == r.Num && tagEq(g.Tag, r.Tag), "C08: the selected row is the cached row")
		}
	}
	rt.Assert(len(got) == n, "C08: nothing else is selected")
}

var colsBasic = []int{0, 1, 2}
var colsTag = []int{0, 2, 3}
var colsConf = []int{0, 4}

func VerifC08Sel1()     { selectByCondition(rt.Choose(3), 1, rt.Choose(5), colsBasic) }
func VerifC08Sel1Tag()  { selectByCondition(1+rt.Choose(2), 1, 1+3*rt.Choose(2), colsTag) }
func VerifC08Sel1Conf() { selectByCondition(1+rt.Choose(2), 1, 2*rt.Choose(2), colsConf) }
func VerifC08Sel2()     { selectByCondition(2, 2, rt.Choose(5), colsBasic) }
func VerifC08Sel2Tag()  { selectByCondition(2, 2, 4, colsTag) }
func VerifC08Sel2Conf() { selectByCondition(2, 2, 2, colsConf) }
func VerifC08Sel3Rows() { selectByCondition(3, 1, rt.Choose(5), colsBasic) }

// sequential: two queries one after the other on the same cache: answering a query must not change what later
// queries (or the indexes) return.
func sequential(cfg int, cols []int) {
	dbm := fix.DBModelS3(clientIndexes(cfg))
	tc, err := cache.NewTableCache(dbm, nil, nil)
	rt.Assert(err == nil, "C08: table cache created")
	rc := tc.Table("Root")
	var rows []*fix.Row3
	for i := 0; i < 2; i++ {
		rows = append(rows, symRow(ids[i], cols))
	}
	rt.Assume(legal(rows))
	for _, r := range rows {
		rt.Assert(rc.Create(r.UUID, r, true) == nil, "C08: rows of a legal state are created")
	}
	run := func(conds []cond) {
		var wire []ovsdb.Condition
		for _, c := range conds {
			wire = append(wire, c.wire())
		}
		got, err := rc.RowsByCondition(wire)
		rt.Assert(err == nil, "C08: well-typed conditions are accepted")
		n := 0
		for _, r := range rows {
			want := true
			for _, c := range conds {
				if !c.holds(r) {
					want = false
				}
			}
			_, in := got[r.UUID]
			rt.Assert(in == want, "C08: a row is selected iff every condition is true for it, also after earlier queries on the same cache")
			if in {
				n++
			}
		}
		rt.Assert(len(got) == n, "C08: nothing else is selected")
	}
	first := []cond{symCond(cols), symCond([]int{0, 5})}
	run(first)
	rt.Reach("selected")
	run([]cond{first[0]})
}

func VerifC08SeqNum()  { sequential(3, []int{2}) }
func VerifC08SeqTag()  { sequential(1, []int{3}) }
func VerifC08SeqConf() { sequential(2, []int{4}) }
