// Package c19: the built-in database answers any syntactically valid transact request with results or error
// results, never a panic, and keeps serving afterwards. Overlay-only harness package.
package c19

import (
	"encoding/json"

	"github.com/cenkalti/rpc2"
	"github.com/ovn-org/libovsdb/database"
	"github.com/ovn-org/libovsdb/database/inmemory"
	"github.com/ovn-org/libovsdb/model"
	"github.com/ovn-org/libovsdb/ovsdb"
	"github.com/ovn-org/libovsdb/server"
	rt "github.com/ovn-org/libovsdb/verifrt"
	"github.com/ovn-org/libovsdb/zzverif/fix"
)

type env struct {
	db  database.Database
	srv *server.OvsdbServer
	cli *rpc2.Client
}

func raw(v interface{}) json.RawMessage {
	b, err := json.Marshal(v)
	if err != nil {
		panic(err)
	}
	return b
}

func newEnv() *env {
	e := &env{}
	e.db = inmemory.NewDatabase(map[string]model.ClientDBModel{"V": fix.ClientModelS4()})
	srv, err := server.NewOvsdbServer(e.db, fix.DBModelS4())
	if err != nil {
		panic(err)
	}
	e.srv = srv
	e.cli = rt.NewRPCClient(func(method string, args []json.RawMessage) (interface{}, error) { return []interface{}{}, nil })
	var reply []*ovsdb.OperationResult
	err = srv.Transact(e.cli, []json.RawMessage{raw("V"),
		raw(ovsdb.Operation{Op: ovsdb.OperationInsert, Table: "Child", UUID: fix.C1, Row: ovsdb.Row{"name": "c1"}}),
		raw(ovsdb.Operation{Op: ovsdb.OperationInsert, Table: "Root", UUID: fix.U1, Row: ovsdb.Row{"name": "r1", "num": 6,
			"kids": ovsdb.OvsSet{GoSet: []interface{}{ovsdb.UUID{GoUUID: fix.C1}}},
			"byv":  ovsdb.OvsMap{GoMap: map[interface{}]interface{}{"k": ovsdb.UUID{GoUUID: fix.C1}}}}})}, &reply)
	rt.Assert(err == nil && len(reply) == 2 && reply[0].Error == "" && reply[1].Error == "", "C19: seeding accepted")
	return e
}

// serves: the server still answers an ordinary transaction.
func (e *env) serves() bool {
	var reply []*ovsdb.OperationResult
	err := e.srv.Transact(e.cli, []json.RawMessage{raw("V"),
		raw(ovsdb.Operation{Op: ovsdb.OperationSelect, Table: "Root", Where: []ovsdb.Condition{}})}, &reply)
	return err == nil && len(reply) == 1 && reply[0] != nil && reply[0].Error == ""
}

const opKeys = "op,table,row,rows,columns,mutations,where,until,timeout,uuid-name,uuid,durable,comment,lock"

// lazyOp: one operation that is an arbitrary JSON document.
func lazyOp(depth, width int) {
	e := newEnv()
	var reply []*ovsdb.OperationResult
	_ = e.srv.Transact(e.cli, []json.RawMessage{raw("V"), rt.LazyJSON(depth, width, opKeys)}, &reply)
	rt.Reach("ran")
	rt.Assert(e.serves(), "C19: the server keeps serving after any transact request")
}

func VerifC19Op22() { lazyOp(2, 2) }
func VerifC19Op32() { lazyOp(3, 2) }
func VerifC19Op33() { lazyOp(3, 3) }

// ---- structurally corrupted valid transactions (schema S1: a column of every type) ----

type J = interface{}
type O = map[string]interface{}
type A = []interface{}

func newEnv1() *env {
	e := &env{}
	cm, err := model.NewClientDBModel("V", map[string]model.Model{"Root": &fix.Root{}})
	if err != nil {
		panic(err)
	}
	e.db = inmemory.NewDatabase(map[string]model.ClientDBModel{"V": cm})
	srv, err := server.NewOvsdbServer(e.db, fix.DBModelS1())
	if err != nil {
		panic(err)
	}
	e.srv = srv
	e.cli = rt.NewRPCClient(func(method string, args []json.RawMessage) (interface{}, error) { return []interface{}{}, nil })
	var reply []*ovsdb.OperationResult
	err = srv.Transact(e.cli, []json.RawMessage{raw("V"), raw(O{"op": "insert", "table": "Root", "uuid": fix.U1, "row": O{
		"name": "r1", "num": 6, "ratio": 1.5, "flag": true, "tag": "t", "onum": 3, "labels": A{"set", A{"a", "b"}}, "nums": A{"set", A{1, 2}},
		"conf": A{"map", A{A{"k", "v"}}}, "cnt": A{"map", A{A{"k", 2}}}, "mode": "a", "imm": "i"}})}, &reply)
	rt.Assert(err == nil && len(reply) == 1 && reply[0].Error == "", "C19: seeding accepted")
	return e
}

var whereU1 = A{A{"_uuid", "==", A{"uuid", fix.U1}}}

// baseOps: valid operations covering every operation kind, every mutator and every column type.
func baseOp(k int) O {
	switch k {
	case 0:
		return O{"op": "insert", "table": "Root", "uuid-name": "n1", "row": O{"name": "r2", "num": 1, "ratio": 0.5, "flag": false, "tag": "x",
			"labels": A{"set", A{"c"}}, "conf": A{"map", A{A{"a", "b"}}}, "cnt": A{"map", A{A{"a", 1}}}, "mode": "b"}}
	case 1:
		return O{"op": "select", "table": "Root", "where": A{A{"num", "<=", 6}, A{"labels", "includes", A{"set", A{"a"}}}}, "columns": A{"name", "num"}}
	case 2:
		return O{"op": "update", "table": "Root", "where": whereU1, "row": O{"num": 7, "tag": A{"set", A{}}, "nums": A{"set", A{3}}, "cnt": A{"map", A{A{"z", 1}}}}}
	case 3:
		return O{"op": "delete", "table": "Root", "where": A{A{"conf", "includes", A{"map", A{A{"k", "v"}}}}}}
	case 4:
		return O{"op": "wait", "table": "Root", "where": whereU1, "columns": A{"name"}, "until": "==", "rows": A{O{"name": "r1"}}, "timeout": 0}
	case 5:
		return O{"op": "mutate", "table": "Root", "where": whereU1, "mutations": A{A{"num", "+=", 1}}}
	case 6:
		return O{"op": "mutate", "table": "Root", "where": whereU1, "mutations": A{A{"num", "/=", 2}}}
	case 7:
		return O{"op": "mutate", "table": "Root", "where": whereU1, "mutations": A{A{"num", "%=", 4}}}
	case 8:
		return O{"op": "mutate", "table": "Root", "where": whereU1, "mutations": A{A{"num", "*=", 3}, A{"num", "-=", 1}}}
	case 9:
		return O{"op": "mutate", "table": "Root", "where": whereU1, "mutations": A{A{"ratio", "/=", 2.0}}}
	case 10:
		return O{"op": "mutate", "table": "Root", "where": whereU1, "mutations": A{A{"nums", "/=", 2}}}
	case 11:
		return O{"op": "mutate", "table": "Root", "where": whereU1, "mutations": A{A{"nums", "%=", 2}}}
	case 12:
		return O{"op": "mutate", "table": "Root", "where": whereU1, "mutations": A{A{"labels", "insert", A{"set", A{"z"}}}, A{"nums", "delete", A{"set", A{1}}}}}
	case 13:
		return O{"op": "mutate", "table": "Root", "where": whereU1, "mutations": A{A{"conf", "insert", A{"map", A{A{"n", "m"}}}}, A{"cnt", "delete", A{"set", A{"k"}}}}}
	case 14:
		return O{"op": "mutate", "table": "Root", "where": whereU1, "mutations": A{A{"onum", "+=", 1}}}
	default:
		return O{"op": "mutate", "table": "Root", "where": whereU1, "mutations": A{A{"tag", "insert", A{"set", A{"y"}}}}}
	}
}

const nBaseOps = 16

// alt: the values a corrupted position is replaced with.
func alt(k int) J {
	switch k {
	case 0:
		return nil
	case 1:
		return true
	case 2:
		return 0
	case 3:
		return -1
	case 4:
		return 0.5
	case 5:
		return ""
	case 6:
		return rt.String()
	case 7:
		return A{}
	case 8:
		return A{"set", A{}}
	case 9:
		return A{"map", A{}}
	case 10:
		return A{"uuid", "x"}
	case 11:
		return O{}
	case 12:
		return A{1}
	case 13:
		return A{"set", A{1, "a"}}
	case 14:
		return A{"map", A{A{"a"}}}
	case 15:
		return A{"named-uuid", "n1"}
	case 16:
		return json.Number("9223372036854775807")
	case 17:
		return json.Number("-9223372036854775808")
	case 18:
		return A{"set", A{0}}
	default:
		return A{A{"k", "v"}}
	}
}

const nAlts = 20

// count returns the number of positions (nodes) of the tree.
func count(v J) int {
	n := 1
	switch x := v.(type) {
	case O:
		for _, c := range x {
			n += count(c)
		}
	case A:
		for _, c := range x {
			n += count(c)
		}
	}
	return n
}

func sortedKeys(m O) []string {
	ks := make([]string, 0, len(m))
	for k := range m {
		ks = append(ks, k)
	}
	for i := 1; i < len(ks); i++ {
		for j := i; j > 0 && ks[j] < ks[j-1]; j-- {
			ks[j], ks[j-1] = ks[j-1], ks[j]
		}
	}
	return ks
}

// rewrite returns the tree with position *pos (preorder) replaced by repl, or dropped from its parent if drop.
func rewrite(v J, pos *int, repl J, drop bool) (out J, dropped bool) {
	if *pos == 0 {
		*pos = -1
		if drop {
			return nil, true
		}
		return repl, false
	}
	*pos--
	switch x := v.(type) {
	case O:
		o := O{}
		for _, k := range sortedKeys(x) {
			if *pos < 0 {
				o[k] = x[k]
				continue
			}
			c, d := rewrite(x[k], pos, repl, drop)
			if !d {
				o[k] = c
			}
		}
		return o, false
	case A:
		a := A{}
		for _, c := range x {
			if *pos < 0 {
				a = append(a, c)
				continue
			}
			c2, d := rewrite(c, pos, repl, drop)
			if !d {
				a = append(a, c2)
			}
		}
		return a, false
	}
	return v, false
}

// corrupted: one valid operation with one position replaced by a value of another shape, or dropped.
func corrupted(lo, hi int) {
	e := newEnv1()
	op := baseOp(lo + rt.Choose(hi-lo))
	pos := 1 + rt.Choose(count(op)-1)
	var bad J
	if k := rt.Choose(nAlts + 1); k == nAlts {
		bad, _ = rewrite(op, &pos, nil, true)
	} else {
		bad, _ = rewrite(op, &pos, alt(k), false)
	}
	var reply []*ovsdb.OperationResult
	rt.Observe("request", string(raw(bad)))
	_ = e.srv.Transact(e.cli, []json.RawMessage{raw("V"), raw(bad)}, &reply)
	rt.Reach("ran")
	rt.Assert(e.serves(), "C19: the server keeps serving after any transact request")
}

func VerifC19CorruptBasic()  { corrupted(0, 5) }
func VerifC19CorruptArith()  { corrupted(5, 12) }
func VerifC19CorruptMutate() { corrupted(12, 16) }
