// Package c07: notifications are the exact difference made by the transaction; failed transactions notify
// nobody and change nothing (C02); a replica fed by the notifications mirrors the database (C01, server side
// + cache side). Overlay-only harness package.
package c07

import (
	"encoding/json"

	"github.com/cenkalti/rpc2"
	"github.com/ovn-org/libovsdb/cache"
	"github.com/ovn-org/libovsdb/database"
	"github.com/ovn-org/libovsdb/database/inmemory"
	"github.com/ovn-org/libovsdb/model"
	"github.com/ovn-org/libovsdb/ovsdb"
	"github.com/ovn-org/libovsdb/server"
	rt "github.com/ovn-org/libovsdb/verifrt"
	"github.com/ovn-org/libovsdb/zzverif/c04"
	"github.com/ovn-org/libovsdb/zzverif/fix"
)

// note is one notification received by a monitoring connection.
type note struct {
	method string
	args   []json.RawMessage
}

// Env is a server with one database and one monitoring connection.
type Env struct {
	DB     database.Database
	Srv    *server.OvsdbServer
	Mon    *rpc2.Client // connection holding the monitor
	Cli    *rpc2.Client // connection issuing transactions
	Notes  []note
	Kind   int // 0 monitor, 1 monitor_cond, 2 monitor_cond_since
	Tables []string
	Cols   map[string][]string // monitored columns per table (nil = all)
	Sel    *ovsdb.MonitorSelect
	// SelOnly, if set, names the one table the select applies to; the other tables' requests omit "select"
	SelOnly string
	// Other: a second monitor ("mon2") with its own method and a narrower column selection is registered too;
	// 1 = on the same connection, 2 = on its own connection. Its notifications are not examined.
	Other     int
	OtherKind int
	Mon2      *rpc2.Client
	Rep       *cache.TableCache // replica fed by the initial reply and the notifications

	partial bool // some kind of change is deselected: the replica is not expected to mirror
}

func raw(v interface{}) json.RawMessage {
	b, err := json.Marshal(v)
	if err != nil {
		panic(err)
	}
	return b
}

func NewEnv() *Env {
	e := &Env{}
	e.DB = inmemory.NewDatabase(map[string]model.ClientDBModel{"V": fix.ClientModelS4()})
	srv, err := server.NewOvsdbServer(e.DB, fix.DBModelS4())
	if err != nil {
		panic(err)
	}
	e.Srv = srv
	e.Mon = rt.NewRPCClient(func(method string, args []json.RawMessage) (interface{}, error) {
		var id string
		if len(args) > 0 && json.Unmarshal(args[0], &id) == nil && id == "mon2" {
			return []interface{}{}, nil
		}
		e.Notes = append(e.Notes, note{method, args})
		return []interface{}{}, nil
	})
	e.Mon2 = rt.NewRPCClient(func(method string, args []json.RawMessage) (interface{}, error) {
		return []interface{}{}, nil
	})
	e.Cli = rt.NewRPCClient(func(method string, args []json.RawMessage) (interface{}, error) {
		return []interface{}{}, nil
	})
	rep, err := cache.NewTableCache(fix.DBModelS4(), nil, nil)
	if err != nil {
		panic(err)
	}
	e.Rep = rep
	return e
}

// Transact submits operations through the server's transact handler.
func (e *Env) Transact(ops ...ovsdb.Operation) ([]*ovsdb.OperationResult, error) {
	args := []json.RawMessage{raw("V")}
	for _, op := range ops {
		args = append(args, raw(op))
	}
	var reply []*ovsdb.OperationResult
	err := e.Srv.Transact(e.Cli, args, &reply)
	return reply, err
}

var methodOf = []string{"update", "update2", "update3"}

// Monitor registers the monitor and applies the initial contents to the replica.
func (e *Env) Monitor() {
	req := map[string]*ovsdb.MonitorRequest{}
	for _, t := range e.Tables {
		req[t] = &ovsdb.MonitorRequest{Columns: e.Cols[t], Select: e.selFor(t)}
	}
	args := []json.RawMessage{raw("V"), raw("mon1"), raw(req)}
	if e.Other > 0 {
		conn := e.Mon
		if e.Other == 2 {
			conn = e.Mon2
		}
		narrow := map[string]*ovsdb.MonitorRequest{"Root": {Columns: []string{"name"}}, "Child": {Columns: []string{"name"}}}
		args2 := []json.RawMessage{raw("V"), raw("mon2"), raw(narrow)}
		switch e.OtherKind {
		case 0:
			var reply ovsdb.TableUpdates
			rt.Assert(e.Srv.Monitor(conn, args2, &reply) == nil, "C07: second monitor accepted")
		case 1:
			var reply ovsdb.TableUpdates2
			rt.Assert(e.Srv.MonitorCond(conn, args2, &reply) == nil, "C07: second monitor_cond accepted")
		case 2:
			var reply ovsdb.MonitorCondSinceReply
			rt.Assert(e.Srv.MonitorCondSince(conn, args2, &reply) == nil, "C07: second monitor_cond_since accepted")
		}
	}
	switch e.Kind {
	case 0:
		var reply ovsdb.TableUpdates
		rt.Assert(e.Srv.Monitor(e.Mon, args, &reply) == nil, "C07: monitor accepted")
		rt.Assert(e.Rep.Populate(reply) == nil, "C01: the initial monitor reply applies to an empty cache")
	case 1:
		var reply ovsdb.TableUpdates2
		rt.Assert(e.Srv.MonitorCond(e.Mon, args, &reply) == nil, "C07: monitor_cond accepted")
		rt.Assert(e.Rep.Populate2(reply) == nil, "C01: the initial monitor_cond reply applies to an empty cache")
	case 2:
		var reply ovsdb.MonitorCondSinceReply
		rt.Assert(e.Srv.MonitorCondSince(e.Mon, args, &reply) == nil, "C07: monitor_cond_since accepted")
		rt.Assert(e.Rep.Populate2(reply.Updates) == nil, "C01: the initial monitor_cond_since reply applies to an empty cache")
	}
}

// ApplyNotes feeds the received notifications to the replica, checking their method and shape.
func (e *Env) ApplyNotes() {
	for _, n := range e.Notes {
		rt.Assert(n.method == methodOf[e.Kind], "C07: the notification method matches the monitor method")
		switch e.Kind {
		case 0:
			rt.Assert(len(n.args) == 2, "C07: update carries [monitor id, table-updates]")
			var tu ovsdb.TableUpdates
			rt.Assert(json.Unmarshal(n.args[1], &tu) == nil, "C07: update payload decodes as <table-updates>")
			rt.Assert(e.Rep.Populate(tu) == nil, "C01: the update notification applies to the replica")
		case 1:
			rt.Assert(len(n.args) == 2, "C07: update2 carries [monitor id, table-updates2]")
			var tu ovsdb.TableUpdates2
			rt.Assert(json.Unmarshal(n.args[1], &tu) == nil, "C07: update2 payload decodes as <table-updates2>")
			rt.Assert(e.Rep.Populate2(tu) == nil, "C01: the update2 notification applies to the replica")
		case 2:
			rt.Assert(len(n.args) == 3, "C07: update3 carries [monitor id, transaction id, table-updates2]")
			var tu ovsdb.TableUpdates2
			rt.Assert(json.Unmarshal(n.args[2], &tu) == nil, "C07: update3 payload decodes as <table-updates2>")
			rt.Assert(e.Rep.Populate2(tu) == nil, "C01: the update3 notification applies to the replica")
		}
	}
}

// selFor is the select member of the monitor request for a table (nil = omitted).
func (e *Env) selFor(t string) *ovsdb.MonitorSelect {
	if e.SelOnly != "" && e.SelOnly != t {
		return nil
	}
	return e.Sel
}

// partialT: some kind of change of this table is deselected.
func (e *Env) partialT(t string) bool {
	return e.partial && (e.SelOnly == "" || e.SelOnly == t)
}

// fullTables lists the monitored tables all of whose changes are selected.
func (e *Env) fullTables() []string {
	var out []string
	for _, t := range e.Tables {
		if !e.partialT(t) {
			out = append(out, t)
		}
	}
	return out
}

func monitored(cols []string, c string) bool {
	if cols == nil {
		return true
	}
	for _, x := range cols {
		if x == c {
			return true
		}
	}
	return false
}

func in(x string, s []string) bool {
	for _, y := range s {
		if x == y {
			return true
		}
	}
	return false
}

func setEq(a, b []string) bool {
	if len(a) != len(b) {
		return false
	}
	for _, x := range a {
		if !in(x, b) {
			return false
		}
	}
	return true
}

func optEq(a, b *string) bool { return (a == nil && b == nil) || (a != nil && b != nil && *a == *b) }

func mapEq(a, b map[string]string) bool {
	if len(a) != len(b) {
		return false
	}
	for k, v := range a {
		w, ok := b[k]
		if !ok || v != w {
			return false
		}
	}
	return true
}

// Mirrors: for every monitored table the replica holds exactly the database rows, equal in every monitored column.
func (e *Env) Mirrors() bool {
	for _, t := range e.fullTables() {
		dbRows, err := e.DB.List("V", t)
		if err != nil {
			return false
		}
		repRows := e.Rep.Table(t).Rows()
		if len(dbRows) != len(repRows) {
			return false
		}
		cols := e.Cols[t]
		for u, dm := range dbRows {
			rm, ok := repRows[u]
			if !ok {
				return false
			}
			switch d := dm.(type) {
			case *fix.Root4:
				r := rm.(*fix.Root4)
				if monitored(cols, "name") && d.Name != r.Name {
					return false
				}
				if monitored(cols, "kids") && !setEq(d.Kids, r.Kids) {
					return false
				}
				if monitored(cols, "wk") && !setEq(d.Wk, r.Wk) {
					return false
				}
				if monitored(cols, "wopt") && !optEq(d.Wopt, r.Wopt) {
					return false
				}
				if monitored(cols, "byk") && !mapEq(d.Byk, r.Byk) {
					return false
				}
				if monitored(cols, "byv") && !mapEq(d.Byv, r.Byv) {
					return false
				}
			case *fix.Child4:
				r := rm.(*fix.Child4)
				if monitored(cols, "name") && d.Name != r.Name {
					return false
				}
				if monitored(cols, "next") && !optEq(d.Next, r.Next) {
					return false
				}
			case *fix.Lim4:
				if monitored(cols, "wk1") && !setEq(d.Wk1, rm.(*fix.Lim4).Wk1) {
					return false
				}
			}
		}
	}
	return true
}

// symMonitor picks the monitor method, the monitored tables and columns.
func (e *Env) symMonitor(kinds int) {
	e.Kind = rt.Choose(kinds)
	switch rt.Choose(3) {
	case 0:
		e.Tables = []string{"Root", "Child"}
	case 1:
		e.Tables = []string{"Root"}
	case 2:
		e.Tables = []string{"Child"}
	}
	e.Cols = map[string][]string{}
	if rt.Choose(2) == 1 {
		e.Cols["Root"] = []string{"name", "kids"}
		e.Cols["Child"] = []string{"name"}
	}
	switch rt.Choose(selKinds) {
	case 0:
		e.Sel = ovsdb.NewDefaultMonitorSelect()
	case 1:
		e.Sel = nil // "select" omitted: everything is selected (RFC 7047 4.1.5)
	case 2:
		e.Sel = ovsdb.NewMonitorSelect(true, true, true, false) // no modify
		e.partial = true
	case 3:
		e.Sel = ovsdb.NewMonitorSelect(true, true, false, true) // no delete
		e.partial = true
	case 4:
		e.Sel = ovsdb.NewMonitorSelect(true, false, true, true) // no insert
		e.partial = true
	}
	if mixedSel && len(e.Tables) == 2 {
		e.SelOnly = []string{"", "Root", "Child"}[rt.Choose(3)]
	}
	if twoMon {
		e.Other = 1 + rt.Choose(2)
		e.OtherKind = rt.Choose(3)
	}
}

// selKinds bounds the select-flag menu (entries widen it).
var selKinds = 2

func kvEq(a, b []c04.KV) bool {
	if len(a) != len(b) {
		return false
	}
	for _, x := range a {
		f := false
		for _, y := range b {
			if x == y {
				f = true
			}
		}
		if !f {
			return false
		}
	}
	return true
}

// changedCols lists the monitored columns of row (table, uuid) whose value differs between two reference states;
// existed/exists tell whether the row is in each state.
func changedCols(before, after *c04.State, table, uuid string, cols []string) (changed []string, existed, exists bool) {
	add := func(c string, diff bool) {
		if diff && monitored(cols, c) {
			changed = append(changed, c)
		}
	}
	switch table {
	case "Root":
		var b, a *c04.RRoot
		for _, r := range before.Roots {
			if r.UUID == uuid {
				b = r
			}
		}
		for _, r := range after.Roots {
			if r.UUID == uuid {
				a = r
			}
		}
		existed, exists = b != nil, a != nil
		if b != nil && a != nil {
			add("kids", !setEq(b.Kids, a.Kids))
			add("wk", !setEq(b.Wk, a.Wk))
			add("wopt", !optEq(b.Wopt, a.Wopt))
			add("byk", !kvEq(b.Byk, a.Byk))
			add("byv", !kvEq(b.Byv, a.Byv))
		}
	case "Child":
		var b, a *c04.RChild
		for _, r := range before.Children {
			if r.UUID == uuid {
				b = r
			}
		}
		for _, r := range after.Children {
			if r.UUID == uuid {
				a = r
			}
		}
		existed, exists = b != nil, a != nil
		if b != nil && a != nil {
			add("next", !optEq(b.Next, a.Next))
		}
	}
	return
}

var allRows = map[string][]string{"Root": {fix.U1}, "Child": {fix.C1, fix.C2, fix.C3}}

// anyMonitoredChange: does the transaction change the monitored part of the database at all?
func (e *Env) anyMonitoredChange(before, after *c04.State) bool {
	for _, t := range e.fullTables() {
		for _, u := range allRows[t] {
			ch, was, is := changedCols(before, after, t, u, e.Cols[t])
			if was != is || len(ch) > 0 {
				return true
			}
		}
	}
	return false
}

// checkMinimal: the update2-style payload reports only rows whose monitored projection changed, with the right
// kind, and modify rows name only changed columns.
func (e *Env) checkMinimal(before, after *c04.State, payload json.RawMessage) {
	var tu ovsdb.TableUpdates2
	if json.Unmarshal(payload, &tu) != nil {
		return
	}
	for t, rows := range tu {
		for u, ru := range rows {
			ch, was, is := changedCols(before, after, t, u, e.Cols[t])
			switch {
			case ru.Insert != nil:
				rt.Assert(!was && is, "C07: an insert is reported only for a row the transaction inserted")
			case ru.Delete != nil:
				rt.Assert(was && !is, "C07: a delete is reported only for a row the transaction deleted")
			case ru.Modify != nil:
				rt.Assert(was && is && len(ch) > 0, "C07: a modify is reported only for a row whose monitored columns changed")
				for c := range *ru.Modify {
					rt.Assert(in(c, ch), "C07: a modify row names only columns whose value changed")
				}
			}
		}
	}
}

// step: symbolic consistent state; a monitor established on it; one transaction; the property.
func step(cfg c04.Cfg, nOps, kinds int) {
	e := NewEnv()
	s := c04.SymState(cfg)
	res, err := e.Transact(c04.SeedOps(s)...)
	rt.Assert(err == nil && !c04.Failed(res), "C07: seeding a consistent state is accepted")
	rt.Assert(s.Matches(e.DB), "C07: the seeded database holds the inserted rows")
	e.symMonitor(kinds)
	e.Monitor()
	rt.Assert(e.Mirrors(), "C01: after the initial contents are applied the cache mirrors the monitored part of the database")
	rt.Assert(len(e.Notes) == 0, "C07: establishing a monitor sends no notification")
	before := s.Clone()
	var ops []ovsdb.Operation
	for i := 0; i < nOps && len(s.Roots) > 0; i++ {
		ops = append(ops, c04.SymOp(s, cfg))
	}
	accepted := s.WellFormed() && s.Normalize()
	res, err = e.Transact(ops...)
	rt.Reach("ran")
	rt.Assert(err == nil, "C02: a transact request always gets a reply")
	if !accepted {
		rt.Assert(c04.Failed(res), "C02: a transaction violating referential integrity is rejected")
		rt.Assert(before.Matches(e.DB), "C02: after a rejected transaction the database holds exactly the rows it held before")
		rt.Assert(len(e.Notes) == 0, "C02: no monitor is notified of a rejected transaction")
		rt.Assert(len(res) == len(ops)+1 && res[len(ops)] != nil && res[len(ops)].Error != "", "C02: a commit-time rejection is reported as one extra error element after all operation results")
		return
	}
	rt.Assert(!c04.Failed(res), "C07: a transaction satisfying the constraints is accepted")
	if c04.Failed(res) {
		return
	}
	rt.Assert(s.Matches(e.DB), "C07: the committed contents are those of the reference")
	rt.Assert(len(e.Notes) <= 1, "C07: at most one notification per committed transaction and monitor")
	full := e.fullTables()
	if e.anyMonitoredChange(before, s) {
		rt.Assert(len(e.Notes) == 1, "C07: exactly one notification for a transaction that changes the monitored part of the database")
	} else if len(full) == len(e.Tables) {
		rt.Assert(len(e.Notes) == 0, "C07: nothing is sent for a transaction with no net effect on the monitored part")
	}
	if len(e.Notes) == 1 && e.Kind > 0 {
		e.checkMinimal(before, s, e.Notes[0].args[len(e.Notes[0].args)-1])
	}
	if e.partial {
		// only the selected kinds of change may appear
		if len(e.Notes) == 1 && e.Kind > 0 {
			var tu ovsdb.TableUpdates2
			_ = json.Unmarshal(e.Notes[0].args[len(e.Notes[0].args)-1], &tu)
			for t, rows := range tu {
				if !e.partialT(t) {
					continue
				}
				for _, ru := range rows {
					rt.Assert(ru.Insert == nil || e.Sel.Insert(), "C07: no insert is reported to a monitor that did not select inserts")
					rt.Assert(ru.Delete == nil || e.Sel.Delete(), "C07: no delete is reported to a monitor that did not select deletes")
					rt.Assert(ru.Modify == nil || e.Sel.Modify(), "C07: no modify is reported to a monitor that did not select modifications")
				}
			}
		}
		if len(full) == 0 {
			return
		}
	}
	e.ApplyNotes()
	if !rt.Symbolic() {
		for _, n := range e.Notes {
			rt.Note("note "+n.method, string(n.args[len(n.args)-1]))
		}
		for _, t := range e.Tables {
			d, _ := e.DB.List("V", t)
			for u, m := range d {
				b, _ := json.Marshal(m)
				rt.Note("db "+t+" "+u[:2], string(b))
			}
			for u, m := range e.Rep.Table(t).Rows() {
				b, _ := json.Marshal(m)
				rt.Note("rep "+t+" "+u[:2], string(b))
			}
		}
	}
	rt.Assert(e.Mirrors(), "C07/C01: the notification applied to the pre-state yields the monitored part of the post-state")
	if len(e.Notes) == 1 {
		// the notification names only monitored tables
		tbl := map[string]json.RawMessage{}
		last := e.Notes[0].args[len(e.Notes[0].args)-1]
		rt.Assert(json.Unmarshal(last, &tbl) == nil, "C07: the payload is a table map")
		for t, body := range tbl {
			rows := map[string]json.RawMessage{}
			_ = json.Unmarshal(body, &rows)
			rt.Assert(in(t, e.Tables) || len(rows) == 0, "C07: nothing is reported for tables the monitor did not select")
		}
	}
}

var cfgKids = c04.Cfg{Kids: true, NChildren: 2}
var cfgWeak = c04.Cfg{Kids: true, Wk: true, Wopt: true, NChildren: 2}
var cfgChain = c04.Cfg{Kids: true, Next: true, NChildren: 2}

func VerifC07Kids1()  { step(cfgKids, 1, 3) }
func VerifC07Weak1()  { step(cfgWeak, 1, 3) }
func VerifC07Chain1() { step(cfgChain, 1, 3) }
func VerifC07Kids2()  { step(cfgKids, 2, 3) }
func VerifC07Select() { selKinds = 5; step(cfgKids, 1, 3) }
func VerifC07Chain2() { step(cfgChain, 2, 2) }

// VerifC07TwoMon: a second, narrower monitor (any method; same or separate connection) is served from the same
// committed update, in either order (the iteration order of processMonitors is a decision).
func VerifC07TwoMon() { twoMon = true; step(cfgKids, 1, 3) }

// VerifC07MixedSel: the select member is given for one table only; the tables of an update are visited in either
// order (the iteration order of GetUpdatedTables is a decision).
func VerifC07MixedSel() { selKinds = 5; mixedSel = true; step(cfgKids, 1, 3) }

var twoMon, mixedSel bool

// ---- C02: all or nothing ----

func failingOp(cause int) ovsdb.Operation {
	zero := 0
	switch cause {
	case 0: // unknown table
		return ovsdb.Operation{Op: ovsdb.OperationUpdate, Table: "Nope", Where: c04.ByUUID(fix.U1), Row: ovsdb.Row{"name": "x"}}
	case 1: // unknown column
		return ovsdb.Operation{Op: ovsdb.OperationUpdate, Table: "Root", Where: c04.ByUUID(fix.U1), Row: ovsdb.Row{"nope": rt.Int()}}
	case 2: // ill-typed value
		return ovsdb.Operation{Op: ovsdb.OperationUpdate, Table: "Root", Where: c04.ByUUID(fix.U1), Row: ovsdb.Row{"name": rt.Int()}}
	case 3: // ill-typed mutation
		return ovsdb.Operation{Op: ovsdb.OperationMutate, Table: "Root", Where: c04.ByUUID(fix.U1),
			Mutations: []ovsdb.Mutation{{Column: "num", Mutator: ovsdb.MutateOperationAdd, Value: rt.String()}}}
	case 4: // unmet zero-timeout wait
		return ovsdb.Operation{Op: ovsdb.OperationWait, Table: "Root", Timeout: &zero, Until: "==", Columns: []string{"name"},
			Where: c04.ByUUID(fix.U1), Rows: []ovsdb.Row{{"name": "some other name"}}}
	case 5: // unsupported operation
		return ovsdb.Operation{Op: "frobnicate"}
	case 6: // commit-time: dangling strong reference
		return ovsdb.Operation{Op: ovsdb.OperationMutate, Table: "Root", Where: c04.ByUUID(fix.U1),
			Mutations: []ovsdb.Mutation{{Column: "kids", Mutator: ovsdb.MutateOperationInsert, Value: ovsdb.OvsSet{GoSet: []interface{}{ovsdb.UUID{GoUUID: fix.Dangling}}}}}}
	case 7: // commit-time: duplicate value of the unique index on name
		return ovsdb.Operation{Op: ovsdb.OperationInsert, Table: "Root", UUID: fix.U2, Row: ovsdb.Row{"name": "r1"}}
	default: // an insert under the UUID of a stored row
		return ovsdb.Operation{Op: ovsdb.OperationInsert, Table: "Root", UUID: fix.U1, Row: ovsdb.Row{"name": "another"}}
	}
}

const nCauses = 9

// failing: a transaction whose operation j fails (or that is rejected at commit) changes nothing, notifies
// nobody, reports the failure in the right place, and leaves the server behaving as if it had never been sent.
func failing(cfg c04.Cfg, nBefore int) {
	e := NewEnv()
	s := c04.SymState(cfg)
	res, err := e.Transact(c04.SeedOps(s)...)
	rt.Assert(err == nil && !c04.Failed(res), "C02: seeding a consistent state is accepted")
	e.Kind = rt.Choose(3)
	e.Tables = []string{"Root", "Child"}
	e.Cols = map[string][]string{}
	e.Sel = ovsdb.NewDefaultMonitorSelect()
	e.Monitor()
	before := s.Clone()
	work := s.Clone()
	var ops []ovsdb.Operation
	for i := 0; i < nBefore && len(work.Roots) > 0; i++ {
		ops = append(ops, c04.SymOp(work, cfg))
	}
	// the prefix alone must be acceptable, so that the failure is the chosen one
	rt.Assume(work.WellFormed() && work.Clone().Normalize() && len(work.Roots) > 0)
	cause := rt.Choose(nCauses)
	j := len(ops)
	ops = append(ops, failingOp(cause))
	// an operation after the failing one must not be executed
	ops = append(ops, ovsdb.Operation{Op: ovsdb.OperationUpdate, Table: "Root", Where: c04.ByUUID(fix.U1), Row: ovsdb.Row{"num": 7}})
	res, err = e.Transact(ops...)
	rt.Reach("failed")
	if !rt.Symbolic() {
		for i, r := range res {
			if r == nil {
				rt.Note("res", i)
			} else {
				rt.Note("res", r.Error+" / "+r.Details)
			}
		}
	}
	rt.Assert(err == nil, "C02: a transact request always gets a reply")
	rt.Assert(c04.Failed(res), "C02: the transaction is reported as failed")
	rt.Assert(before.Matches(e.DB), "C02: the database holds exactly the rows it held before")
	rt.Assert(before.RefIndexMatches(e.DB), "C02: the reference index is unchanged")
	rt.Assert(len(e.Notes) == 0, "C02: no monitor is notified of anything")
	if cause == 6 || cause == 7 {
		n := len(ops)
		rt.Assert(len(res) == n+1, "C02: a commit-time rejection reports all operation results plus one extra error element")
		for i := 0; i < n && i < len(res); i++ {
			rt.Assert(res[i] != nil && res[i].Error == "", "C02: the operations of a transaction rejected at commit time have ordinary results")
		}
		rt.Assert(len(res) == n+1 && res[n] != nil && res[n].Error != "", "C02: the extra element is the error")
	} else {
		if (cause == 0 || cause == 1 || cause == 5) && j > 0 {
			// Known finding, kept apart: an unknown table is detected while named UUIDs are expanded, before any
			// operation runs, and the error is put in the first result whatever the position of the operation.
			ok := len(res) > j && res[j] != nil && res[j].Error != ""
			for i := 0; i < j && i < len(res); i++ {
				ok = ok && res[i] != nil && res[i].Error == ""
			}
			rt.Assert(ok, "C02: an operation on an unknown table or column (or of an unknown kind) is reported at its own position, after the results of the earlier operations")
		} else {
			rt.Assert(len(res) > j && res[j] != nil && res[j].Error != "", "C02: the failing operation's result is the error")
			for i := 0; i < j && i < len(res); i++ {
				rt.Assert(res[i] != nil && res[i].Error == "", "C02: operations before the failing one have ordinary results")
			}
		}
		for i := j + 1; i < len(res); i++ {
			rt.Assert(res[i] == nil || ((cause == 0 || cause == 1 || cause == 5) && j > 0), "C02: nothing is reported for operations after the failing one")
		}
	}
	// a later transaction behaves as if the failed one had never been submitted
	follow := before.Clone()
	fop := c04.SymOp(follow, cfg)
	accepted := follow.WellFormed() && follow.Normalize()
	res, err = e.Transact(fop)
	rt.Assert(err == nil && c04.Failed(res) == !accepted, "C02: a later transaction is accepted or rejected as on a database that never saw the failed one")
	if accepted {
		rt.Assert(follow.Matches(e.DB), "C02: a later transaction has the effect it has on a database that never saw the failed one")
		rt.Assert(len(e.Notes) <= 1, "C02: the later transaction is notified normally")
	} else {
		rt.Assert(before.Matches(e.DB), "C02: a later rejected transaction changes nothing either")
	}
}

func VerifC02Fail0() { failing(cfgKids, 0) }
func VerifC02Fail1() { failing(cfgKids, 1) }
func VerifC02FailW() { failing(cfgWeak, 1) }
