// Package c03: operation results and effects follow RFC 7047 (overlay-only harness package).
package c03

import (
	"github.com/google/uuid"
	"github.com/ovn-org/libovsdb/database"
	"github.com/ovn-org/libovsdb/database/inmemory"
	"github.com/ovn-org/libovsdb/model"
	"github.com/ovn-org/libovsdb/ovsdb"
	rt "github.com/ovn-org/libovsdb/verifrt"
	"github.com/ovn-org/libovsdb/zzverif/fix"
)

// NewDB creates the in-memory database for schema S1.
func NewDB() database.Database {
	cm, err := model.NewClientDBModel("V", map[string]model.Model{"Root": &fix.Root{}})
	if err != nil {
		panic(err)
	}
	db := inmemory.NewDatabase(map[string]model.ClientDBModel{"V": cm})
	if err := db.CreateDatabase("V", fix.MustSchema(fix.SchemaS1)); err != nil {
		panic(err)
	}
	return db
}

// Run executes and, if accepted, commits a transaction.
func Run(db database.Database, ops ...ovsdb.Operation) []*ovsdb.OperationResult {
	tx := db.NewTransaction("V")
	res, upd := tx.Transact(ops...)
	for _, r := range res {
		if r != nil && r.Error != "" {
			return res
		}
	}
	if err := db.Commit("V", uuid.New(), upd); err != nil {
		panic("commit: " + err.Error())
	}
	return res
}

func VerifC03Smoke() {
	db := NewDB()
	n := rt.Int()
	res := Run(db, ovsdb.Operation{Op: ovsdb.OperationInsert, Table: "Root", UUID: fix.U1, Row: ovsdb.Row{"name": "r1", "num": n, "mode": "a"}})
	rt.Reach("inserted")
	rt.Assert(len(res) == 1 && res[0].Error == "", "C03 smoke: insert accepted")
	rows, err := db.List("V", "Root")
	rt.Assert(err == nil && len(rows) == 1, "C03 smoke: one row")
	r := rows[fix.U1].(*fix.Root)
	rt.Assert(r.Num == n && r.Name == "r1", "C03 smoke: row stored")
}

// ---------------------------------------------------------------------------------------------------------
// Reference model of RFC 7047 5.1-5.2 for table Root of schema S1 (typed rows).

type kv struct{ k, v string }

type rrow struct {
	uuid   string
	name   string
	num    int
	ratio  float64
	flag   bool
	tag    *string
	labels []string
	conf   []kv
	imm    string
}

func inS(x string, s []string) bool {
	for _, y := range s {
		if x == y {
			return true
		}
	}
	return false
}

func subset(a, b []string) bool {
	for _, x := range a {
		if !inS(x, b) {
			return false
		}
	}
	return true
}

func disjoint(a, b []string) bool {
	for _, x := range a {
		if inS(x, b) {
			return false
		}
	}
	return true
}

func lookup(c []kv, k string) (string, bool) {
	for _, e := range c {
		if e.k == k {
			return e.v, true
		}
	}
	return "", false
}

func hasPair(c []kv, p kv) bool {
	v, ok := lookup(c, p.k)
	return ok && v == p.v
}

// cond is one typed condition.
type cond struct {
	col  int // 0 name, 1 num, 2 ratio, 3 flag, 4 tag, 5 labels, 6 conf, 7 _uuid
	fn   int // index into funcs
	s    string
	i    int
	f    float64
	b    bool
	set  []string // tag (0..1 elements), labels
	conf []kv
}

var funcs = []ovsdb.ConditionFunction{ovsdb.ConditionEqual, ovsdb.ConditionNotEqual, ovsdb.ConditionIncludes, ovsdb.ConditionExcludes,
	ovsdb.ConditionLessThan, ovsdb.ConditionLessThanOrEqual, ovsdb.ConditionGreaterThan, ovsdb.ConditionGreaterThanOrEqual}

var colName = []string{"name", "num", "ratio", "flag", "tag", "labels", "conf", "_uuid"}

func tagSet(t *string) []string {
	if t == nil {
		return nil
	}
	return []string{*t}
}

// holds evaluates a condition on a row as RFC 7047 5.1 prescribes.
func (c cond) holds(r *rrow) bool {
	switch c.col {
	case 0:
		return [...]bool{r.name == c.s, r.name != c.s, r.name == c.s, r.name != c.s}[c.fn]
	case 7:
		return [...]bool{r.uuid == c.s, r.uuid != c.s, r.uuid == c.s, r.uuid != c.s}[c.fn]
	case 1:
		return [...]bool{r.num == c.i, r.num != c.i, r.num == c.i, r.num != c.i, r.num < c.i, r.num <= c.i, r.num > c.i, r.num >= c.i}[c.fn]
	case 2:
		return [...]bool{r.ratio == c.f, r.ratio != c.f, r.ratio == c.f, r.ratio != c.f, r.ratio < c.f, r.ratio <= c.f, r.ratio > c.f, r.ratio >= c.f}[c.fn]
	case 3:
		return [...]bool{r.flag == c.b, r.flag != c.b, r.flag == c.b, r.flag != c.b}[c.fn]
	case 4, 5:
		have := r.labels
		if c.col == 4 {
			have = tagSet(r.tag)
		}
		eq := len(have) == len(c.set) && subset(have, c.set)
		return [...]bool{eq, !eq, subset(c.set, have), disjoint(c.set, have)}[c.fn]
	case 6:
		all, none := true, true
		for _, p := range c.conf {
			if hasPair(r.conf, p) {
				none = false
			} else {
				all = false
			}
		}
		eq := len(r.conf) == len(c.conf) && all
		return [...]bool{eq, !eq, all, none}[c.fn]
	}
	panic("col")
}

func strSetOvs(s []string) ovsdb.OvsSet {
	gs := make([]interface{}, len(s))
	for i, x := range s {
		gs[i] = x
	}
	return ovsdb.OvsSet{GoSet: gs}
}

func confOvs(c []kv) ovsdb.OvsMap {
	gm := make(map[interface{}]interface{}, len(c))
	for _, e := range c {
		gm[e.k] = e.v
	}
	return ovsdb.OvsMap{GoMap: gm}
}

// wire renders the condition in OVSDB notation.
func (c cond) wire() ovsdb.Condition {
	var v interface{}
	switch c.col {
	case 0:
		v = c.s
	case 7:
		v = ovsdb.UUID{GoUUID: c.s}
	case 1:
		v = c.i
	case 2:
		v = c.f
	case 3:
		v = c.b
	case 4, 5:
		v = strSetOvs(c.set)
	case 6:
		v = confOvs(c.conf)
	}
	return ovsdb.Condition{Column: colName[c.col], Function: funcs[c.fn], Value: v}
}

// symCond builds a condition on one of the given columns with a symbolic argument.
func symCond(cols []int) cond {
	c := cond{col: cols[rt.Choose(len(cols))]}
	switch c.col {
	case 0:
		c.fn, c.s = rt.Choose(4), rt.String()
	case 7:
		c.fn, c.s = rt.Choose(4), [...]string{fix.U1, fix.U2, fix.U3}[rt.Choose(3)]
	case 1:
		c.fn, c.i = rt.Choose(8), rt.Int()
	case 2:
		c.fn, c.f = rt.Choose(8), rt.Float64()
	case 3:
		c.fn, c.b = rt.Choose(4), rt.Bool()
	case 4:
		c.fn = rt.Choose(4)
		if rt.Choose(2) == 1 {
			c.set = []string{rt.String()}
		}
	case 5:
		c.fn = rt.Choose(4)
		n := rt.Choose(3)
		for i := 0; i < n; i++ {
			c.set = append(c.set, rt.String())
		}
		if n == 2 {
			rt.Assume(c.set[0] != c.set[1])
		}
	case 6:
		c.fn = rt.Choose(4)
		if rt.Choose(2) == 1 {
			c.conf = []kv{{rt.String(), rt.String()}}
		}
	}
	return c
}

type where []cond

func (w where) holds(r *rrow) bool {
	for _, c := range w {
		if !c.holds(r) {
			return false
		}
	}
	return true
}

func (w where) wire() []ovsdb.Condition {
	out := make([]ovsdb.Condition, 0, len(w))
	for _, c := range w {
		out = append(out, c.wire())
	}
	return out
}

func symWhere(max int, cols []int) where {
	n := rt.Choose(max + 1)
	var w where
	for i := 0; i < n; i++ {
		w = append(w, symCond(cols))
	}
	return w
}

// symRow returns a row with symbolic contents in the given columns (others default).
func symRow(uuid string, cols []int) *rrow {
	r := &rrow{uuid: uuid, name: rt.String()}
	for _, c := range cols {
		switch c {
		case 1:
			r.num = rt.Int()
		case 2:
			r.ratio = rt.Float64()
		case 3:
			r.flag = rt.Bool()
		case 4:
			if rt.Choose(2) == 1 {
				s := rt.String()
				r.tag = &s
			}
		case 5:
			if rt.Choose(2) == 1 {
				r.labels = []string{rt.String()}
			}
		case 6:
			if rt.Choose(2) == 1 {
				r.conf = []kv{{rt.String(), rt.String()}}
			}
		}
	}
	return r
}

// wireRow renders a row for an insert operation.
func (r *rrow) wireRow() ovsdb.Row {
	row := ovsdb.Row{"name": r.name, "num": r.num, "ratio": r.ratio, "flag": r.flag, "mode": "a", "imm": r.imm}
	row["tag"] = strSetOvs(tagSet(r.tag))
	// an empty collection is either written as such or left out of the insert (the stored model then holds nil)
	if len(r.labels) > 0 || !omitEmpty {
		row["labels"] = strSetOvs(r.labels)
	}
	if len(r.conf) > 0 || !omitEmpty {
		row["conf"] = confOvs(r.conf)
	}
	return row
}

// omitEmpty: seeding leaves empty collections out of the inserted rows.
var omitEmpty bool

func (r *rrow) clone() *rrow {
	c := *r
	if r.tag != nil {
		s := *r.tag
		c.tag = &s
	}
	c.labels = append([]string(nil), r.labels...)
	c.conf = append([]kv(nil), r.conf...)
	return &c
}

// sameAsModel compares a reference row with a stored / returned model.
func (r *rrow) sameAsModel(m *fix.Root) bool {
	if m.UUID != r.uuid || m.Name != r.name || m.Num != r.num || m.Ratio != r.ratio || m.Flag != r.flag || m.Imm != r.imm {
		return false
	}
	if (r.tag == nil) != (m.Tag == nil) || (r.tag != nil && *r.tag != *m.Tag) {
		return false
	}
	if len(r.labels) != len(m.Labels) || !subset(r.labels, m.Labels) {
		return false
	}
	if len(r.conf) != len(m.Conf) {
		return false
	}
	for _, e := range r.conf {
		v, ok := m.Conf[e.k]
		if !ok || v != e.v {
			return false
		}
	}
	return true
}

// state is the reference database.
type state struct{ rows []*rrow }

func (s *state) find(uuid string) *rrow {
	for _, r := range s.rows {
		if r.uuid == uuid {
			return r
		}
	}
	return nil
}

func (s *state) selectRows(w where) []*rrow {
	var out []*rrow
	for _, r := range s.rows {
		if w.holds(r) {
			out = append(out, r)
		}
	}
	return out
}

func (s *state) uniqueNames() bool {
	for i := range s.rows {
		for j := i + 1; j < len(s.rows); j++ {
			if s.rows[i].name == s.rows[j].name {
				return false
			}
		}
	}
	return true
}

// matches checks that the database holds exactly the reference rows.
func (s *state) matches(db database.Database) bool {
	rows, err := db.List("V", "Root")
	if err != nil || len(rows) != len(s.rows) {
		return false
	}
	for _, r := range s.rows {
		m, ok := rows[r.uuid]
		if !ok || !r.sameAsModel(m.(*fix.Root)) {
			return false
		}
	}
	return true
}

// resultRowsMatch: the rows of a select result are exactly `want` (as a set keyed by _uuid; absent column == default).
func resultRowsMatch(dbm model.DatabaseModel, got []ovsdb.Row, want []*rrow) bool {
	if len(got) != len(want) {
		return false
	}
	for _, w := range want {
		found := false
		for _, g := range got {
			u, _ := g["_uuid"].(ovsdb.UUID)
			if u.GoUUID != w.uuid {
				continue
			}
			back := &fix.Root{}
			info, _ := dbm.NewModelInfo(back)
			gg := g
			if dbm.Mapper.GetRowData(&gg, info) != nil {
				return false
			}
			back.UUID = u.GoUUID
			if !w.sameAsModel(back) {
				return false
			}
			found = true
		}
		if !found {
			return false
		}
	}
	return true
}

func dbModel() model.DatabaseModel { return fix.DBModelS1() }

// seed commits the reference rows into a fresh database through real insert operations.
func seed(s *state) database.Database {
	db := NewDB()
	if len(s.rows) == 0 {
		return db
	}
	ops := make([]ovsdb.Operation, 0, len(s.rows))
	for _, r := range s.rows {
		ops = append(ops, ovsdb.Operation{Op: ovsdb.OperationInsert, Table: "Root", UUID: r.uuid, Row: r.wireRow()})
	}
	res := Run(db, ops...)
	for _, r := range res {
		rt.Assert(r != nil && r.Error == "", "C03: seeding inserts of distinct rows are accepted")
	}
	return db
}

func symState(n int, cols []int) *state {
	s := &state{}
	ids := []string{fix.U1, fix.U2}
	for i := 0; i < n; i++ {
		s.rows = append(s.rows, symRow(ids[i], cols))
	}
	rt.Assume(s.uniqueNames())
	return s
}

func failed(res []*ovsdb.OperationResult) bool {
	for _, r := range res {
		if r != nil && r.Error != "" {
			return true
		}
	}
	return false
}

// ---------------------------------------------------------------------------------------------------------
// Operations: each builder returns the wire operation, applies its RFC meaning to the reference state and
// returns a checker for the operation's result.

type checker func(r *ovsdb.OperationResult) bool

var intMutators = []ovsdb.Mutator{ovsdb.MutateOperationAdd, ovsdb.MutateOperationSubtract, ovsdb.MutateOperationMultiply,
	ovsdb.MutateOperationDivide, ovsdb.MutateOperationModulo}

func countIs(n int) checker {
	return func(r *ovsdb.OperationResult) bool { return r != nil && r.Error == "" && r.Count == n }
}

func symOp(kind int, s *state, cols []int, maxConds int, dbm model.DatabaseModel) (ovsdb.Operation, checker) {
	wcols := append(append([]int(nil), cols...), 0, 7)
	switch kind {
	case 0: // insert
		r := symRow(fix.U3, cols)
		s.rows = append(s.rows, r)
		return ovsdb.Operation{Op: ovsdb.OperationInsert, Table: "Root", UUID: fix.U3, Row: r.wireRow()},
			func(res *ovsdb.OperationResult) bool {
				return res != nil && res.Error == "" && res.UUID.GoUUID == fix.U3
			}
	case 1: // select
		w := symWhere(maxConds, wcols)
		var want []*rrow
		for _, r := range s.selectRows(w) {
			want = append(want, r.clone())
		}
		return ovsdb.Operation{Op: ovsdb.OperationSelect, Table: "Root", Where: w.wire()},
			func(res *ovsdb.OperationResult) bool {
				return res != nil && res.Error == "" && resultRowsMatch(dbm, res.Rows, want)
			}
	case 2: // update
		w := symWhere(maxConds, wcols)
		sel := s.selectRows(w)
		col := append([]int{0}, cols...)[rt.Choose(len(cols)+1)]
		row := ovsdb.Row{}
		switch col {
		case 0:
			v := rt.String()
			row["name"] = v
			for _, r := range sel {
				r.name = v
			}
		case 1:
			v := rt.Int()
			row["num"] = v
			for _, r := range sel {
				r.num = v
			}
		case 2:
			v := rt.Float64()
			row["ratio"] = v
			for _, r := range sel {
				r.ratio = v
			}
		case 3:
			v := rt.Bool()
			row["flag"] = v
			for _, r := range sel {
				r.flag = v
			}
		case 4:
			var t *string
			if rt.Choose(2) == 1 {
				x := rt.String()
				t = &x
			}
			row["tag"] = strSetOvs(tagSet(t))
			for _, r := range sel {
				r.tag = t
			}
		case 5:
			var l []string
			if rt.Choose(2) == 1 {
				l = []string{rt.String()}
			}
			row["labels"] = strSetOvs(l)
			for _, r := range sel {
				r.labels = append([]string(nil), l...)
			}
		case 6:
			var c []kv
			if rt.Choose(2) == 1 {
				c = []kv{{rt.String(), rt.String()}}
			}
			row["conf"] = confOvs(c)
			for _, r := range sel {
				r.conf = append([]kv(nil), c...)
			}
		}
		return ovsdb.Operation{Op: ovsdb.OperationUpdate, Table: "Root", Where: w.wire(), Row: row}, countIs(len(sel))
	case 3, 8: // mutate (8: two mutations in one operation, possibly of the same column)
		w := symWhere(maxConds, wcols)
		sel := s.selectRows(w)
		one := func() ovsdb.Mutation {
			col := cols[rt.Choose(len(cols))]
			var m ovsdb.Mutation
			switch col {
			case 1:
				k := rt.Choose(intMutMax)
				v := rt.Int()
				if k >= 2 {
					// multiply / divide / modulo by a constant from a small menu (64-bit symbolic x symbolic
					// multiplication and division are out of the solvers' reach); the current value stays symbolic
					v = [...]int{-1, 2, 3, 10}[rt.Choose(4)]
				}
				m = ovsdb.Mutation{Column: "num", Mutator: intMutators[k], Value: v}
				for _, r := range sel {
					switch k {
					case 0:
						r.num += v
					case 1:
						r.num -= v
					case 2:
						r.num *= v
					case 3:
						r.num /= v
					case 4:
						r.num %= v
					}
				}
			case 2:
				k := rt.Choose(realMutMax)
				v := rt.Float64()
				if k >= 2 {
					v = [...]float64{-1, 2, 0.5, 10}[rt.Choose(4)]
				}
				m = ovsdb.Mutation{Column: "ratio", Mutator: intMutators[k], Value: v}
				for _, r := range sel {
					switch k {
					case 0:
						r.ratio += v
					case 1:
						r.ratio -= v
					case 2:
						r.ratio *= v
					case 3:
						r.ratio /= v
					}
					// results that overflow to an infinity are outside the claim (as integer overflow is)
					rt.Assume(r.ratio <= 1.7976931348623157e308 && r.ratio >= -1.7976931348623157e308)
				}
			case 5:
				x := rt.String()
				if rt.Choose(2) == 0 {
					m = ovsdb.Mutation{Column: "labels", Mutator: ovsdb.MutateOperationInsert, Value: strSetOvs([]string{x})}
					for _, r := range sel {
						if !inS(x, r.labels) {
							r.labels = append(append([]string(nil), r.labels...), x)
						}
					}
				} else {
					m = ovsdb.Mutation{Column: "labels", Mutator: ovsdb.MutateOperationDelete, Value: strSetOvs([]string{x})}
					for _, r := range sel {
						var keep []string
						for _, y := range r.labels {
							if y != x {
								keep = append(keep, y)
							}
						}
						r.labels = keep
					}
				}
			case 6:
				k, v := rt.String(), rt.String()
				switch rt.Choose(3) {
				case 0: // insert pair: only keys not already present
					m = ovsdb.Mutation{Column: "conf", Mutator: ovsdb.MutateOperationInsert, Value: confOvs([]kv{{k, v}})}
					for _, r := range sel {
						if _, ok := lookup(r.conf, k); !ok {
							r.conf = append(append([]kv(nil), r.conf...), kv{k, v})
						}
					}
				case 1: // delete by key
					m = ovsdb.Mutation{Column: "conf", Mutator: ovsdb.MutateOperationDelete, Value: strSetOvs([]string{k})}
					for _, r := range sel {
						var keep []kv
						for _, e := range r.conf {
							if e.k != k {
								keep = append(keep, e)
							}
						}
						r.conf = keep
					}
				case 2: // delete by pair: only pairs with the same key and value
					m = ovsdb.Mutation{Column: "conf", Mutator: ovsdb.MutateOperationDelete, Value: confOvs([]kv{{k, v}})}
					for _, r := range sel {
						var keep []kv
						for _, e := range r.conf {
							if !(e.k == k && e.v == v) {
								keep = append(keep, e)
							}
						}
						r.conf = keep
					}
				}
			default:
				// flag / tag: no mutators are defined; fall back to an integer mutation
				v := rt.Int()
				m = ovsdb.Mutation{Column: "num", Mutator: ovsdb.MutateOperationAdd, Value: v}
				for _, r := range sel {
					r.num += v
				}
			}
			return m
		}
		muts := []ovsdb.Mutation{one()}
		if kind == 8 {
			muts = append(muts, one())
		}
		return ovsdb.Operation{Op: ovsdb.OperationMutate, Table: "Root", Where: w.wire(), Mutations: muts}, countIs(len(sel))
	case 4: // delete
		w := symWhere(maxConds, wcols)
		sel := s.selectRows(w)
		var keep []*rrow
		for _, r := range s.rows {
			if !w.holds(r) {
				keep = append(keep, r)
			}
		}
		s.rows = keep
		return ovsdb.Operation{Op: ovsdb.OperationDelete, Table: "Root", Where: w.wire()}, countIs(len(sel))
	case 6: // update naming two columns: the set (possibly with its current value) and the integer
		w := symWhere(maxConds, wcols)
		sel := s.selectRows(w)
		var l []string
		n := rt.Choose(3)
		for i := 0; i < n; i++ {
			l = append(l, rt.String())
		}
		if n == 2 {
			rt.Assume(l[0] != l[1])
		}
		v := rt.Int()
		for _, r := range sel {
			r.labels = append([]string(nil), l...)
			r.num = v
		}
		return ovsdb.Operation{Op: ovsdb.OperationUpdate, Table: "Root", Where: w.wire(), Row: ovsdb.Row{"labels": strSetOvs(l), "num": v}}, countIs(len(sel))
	case 7: // update naming the map (possibly with its current value) and the integer
		w := symWhere(maxConds, wcols)
		sel := s.selectRows(w)
		var c []kv
		if rt.Choose(2) == 1 {
			c = []kv{{rt.String(), rt.String()}}
		}
		v := rt.Int()
		for _, r := range sel {
			r.conf = append([]kv(nil), c...)
			r.num = v
		}
		return ovsdb.Operation{Op: ovsdb.OperationUpdate, Table: "Root", Where: w.wire(), Row: ovsdb.Row{"conf": confOvs(c), "num": v}}, countIs(len(sel))
	default: // zero-timeout wait on one row's integer column
		target := [...]string{fix.U1, fix.U2, fix.U3}[rt.Choose(3)]
		v := rt.Int()
		rt.Assume(v != 0) // a default-valued expectation is not expressible in the library's row notation
		eq := rt.Choose(2) == 0
		until := "=="
		if !eq {
			until = "!="
		}
		zero := 0
		r := s.find(target)
		matches := r != nil && r.num == v
		met := matches == eq
		return ovsdb.Operation{Op: ovsdb.OperationWait, Table: "Root", Timeout: &zero, Until: until, Columns: []string{"num"},
				Where: []ovsdb.Condition{{Column: "_uuid", Function: ovsdb.ConditionEqual, Value: ovsdb.UUID{GoUUID: target}}},
				Rows:  []ovsdb.Row{{"num": v}}},
			func(res *ovsdb.OperationResult) bool { return res != nil && (res.Error == "") == met }
	}
}

// program runs nOps symbolic operations (kinds from menu) on a database of nRows symbolic rows and compares
// every result and the final contents with the reference.
func program(nRows, nOps, maxConds int, cols []int, menu []int) {
	programOn(symState(nRows, cols), nOps, maxConds, cols, menu)
}

func programOn(s *state, nOps, maxConds int, cols []int, menu []int) {
	dbm := dbModel()
	db := seed(s)
	rt.Assert(s.matches(db), "C03: the seeded database holds the inserted rows")
	before := &state{}
	for _, r := range s.rows {
		before.rows = append(before.rows, r.clone())
	}
	ops := make([]ovsdb.Operation, 0, nOps)
	checks := make([]checker, 0, nOps)
	waitFails := -1
	transientDup := false // two rows share an index value between operations (legal until commit)
	for i := 0; i < nOps; i++ {
		kind := 0
		if forcedKinds != nil {
			kind = forcedKinds[i]
		} else {
			kind = menu[rt.Choose(len(menu))]
		}
		if kind == 0 && s.find(fix.U3) != nil {
			kind = 1
		}
		op, chk := symOp(kind, s, cols, maxConds, dbm)
		ops = append(ops, op)
		checks = append(checks, chk)
		if kind == 5 && waitFails < 0 && !chk(&ovsdb.OperationResult{}) {
			waitFails = i
		}
		if i < nOps-1 && !s.uniqueNames() {
			transientDup = true
		}
	}
	res := Run(db, ops...)
	rt.Reach("ran")
	for i, r := range res {
		if r != nil && r.Error != "" {
			rt.Observe("error", i)
			rt.Note("error-text", r.Error+": "+r.Details)
		}
	}
	for _, op := range ops {
		rt.Observe("op", op.Op)
	}
	if transientDup && waitFails < 0 {
		// kept apart from the assertions below: the transaction cache's unique index holds one row per value, so
		// a later condition on a transiently duplicated value sees only one of the rows (known finding)
		ok := failed(res) == !s.uniqueNames()
		if ok && !failed(res) {
			for i, chk := range checks {
				ok = ok && i < len(res) && chk(res[i])
			}
			ok = ok && s.matches(db)
		}
		rt.Assert(ok, "C03: operations after a transient duplicate of an indexed value see every row")
		return
	}
	if waitFails >= 0 {
		// an unmet zero-timeout wait fails the transaction at that operation
		rt.Assert(len(res) > waitFails && res[waitFails] != nil && res[waitFails].Error != "", "C03: an unmet zero-timeout wait times out")
		rt.Assert(before.matches(db), "C03: a transaction with a timed-out wait changes nothing")
		return
	}
	if !s.uniqueNames() {
		rt.Assert(failed(res), "C03: a transaction ending with duplicate index values is rejected")
		return
	}
	rt.Assert(!failed(res), "C03: a well-typed transaction without constraint violations is accepted")
	if failed(res) {
		return
	}
	rt.Assert(len(res) == nOps, "C03: one result per operation")
	for i, chk := range checks {
		if i < len(res) {
			rt.Assert(chk(res[i]), "C03: result of "+ops[i].Op+" follows RFC 7047")
		}
	}
	rt.Assert(s.matches(db), "C03: database contents after the transaction follow RFC 7047")
}

// mutator menus: entries for the quick tier use += and -= with symbolic operands; *=, /=, %= (by constants) are
// exercised by dedicated entries because 64-bit multiplication/division make every later query expensive.
var intMutMax, realMutMax = 2, 2

// forcedKinds, if set, fixes the kind of each operation of the program (entries that pin a sequence).
var forcedKinds []int

var colsA = []int{1, 5} // num, labels
var colsB = []int{3, 4} // flag, tag
var colsR = []int{2}    // ratio
var colsC = []int{6}    // conf

func VerifC03OneOpA()    { program(rt.Choose(3), 1, 1, colsA, []int{0, 1, 2, 3, 4, 5}) }
func VerifC03OneOpB()    { program(rt.Choose(3), 1, 1, colsB, []int{0, 1, 2, 3, 4}) }
func VerifC03OneOpC()    { program(rt.Choose(3), 1, 1, colsC, []int{0, 1, 2, 3, 4}) }
func VerifC03TwoOpsA()   { program(1+rt.Choose(2), 2, 1, []int{1}, []int{0, 1, 2, 3, 4, 5}) }
func VerifC03TwoOpsL()   { program(1, 2, 1, []int{5}, []int{1, 2, 3, 4}) }
func VerifC03TwoCondsA() { program(2, 1, 2, colsA, []int{1, 2, 4}) }

func VerifC03MulDivInt() {
	intMutMax = 5
	program(1, 1, 0, []int{1}, []int{3})
}
func VerifC03MulDivReal() {
	realMutMax = 4
	program(1, 1, 0, []int{2}, []int{3})
}

// VerifC03Immutable: an immutable column can be set on insert but never changed afterwards.
func VerifC03Immutable() {
	s := &state{rows: []*rrow{{uuid: fix.U1, name: "r1", imm: rt.String()}}}
	db := seed(s)
	rt.Assert(s.matches(db), "C03: an immutable column can be set on insert")
	nv := rt.String()
	res := Run(db, ovsdb.Operation{Op: ovsdb.OperationUpdate, Table: "Root", Row: ovsdb.Row{"imm": nv},
		Where: []ovsdb.Condition{{Column: "_uuid", Function: ovsdb.ConditionEqual, Value: ovsdb.UUID{GoUUID: fix.U1}}}})
	rt.Reach("ran")
	if nv != s.rows[0].imm {
		rt.Assert(failed(res), "C03: changing an immutable column is an error")
	}
	rt.Assert(s.matches(db), "C03: an immutable column keeps its value")
	res = Run(db, ovsdb.Operation{Op: ovsdb.OperationMutate, Table: "Root",
		Mutations: []ovsdb.Mutation{{Column: "imm", Mutator: ovsdb.MutateOperationInsert, Value: nv}},
		Where:     []ovsdb.Condition{{Column: "_uuid", Function: ovsdb.ConditionEqual, Value: ovsdb.UUID{GoUUID: fix.U1}}}})
	rt.Assert(s.matches(db), "C03: an immutable column keeps its value under mutate")
}

func VerifC03OneOpR() { program(rt.Choose(3), 1, 1, colsR, []int{0, 1, 2, 4}) }

func VerifC03DeleteThenUpdate() {
	forcedKinds = []int{4, 2}
	program(1+rt.Choose(2), 2, 1, []int{1}, []int{0})
}

func VerifC03TwoOpsS() { program(1, 2, 1, []int{1}, []int{1, 2, 3, 4}) }
func VerifC03TwoOpsI() { program(1, 2, 0, []int{1}, []int{0, 1, 2, 3, 4, 5}) }

// symRow2: rows with up to two labels (multi-column update entries).
func VerifC03MultiColSet() {
	s := &state{}
	r := &rrow{uuid: fix.U1, name: rt.String(), num: rt.Int()}
	n := rt.Choose(3)
	for i := 0; i < n; i++ {
		r.labels = append(r.labels, rt.String())
	}
	if n == 2 {
		rt.Assume(r.labels[0] != r.labels[1])
	}
	s.rows = []*rrow{r}
	programOn(s, 1, 0, []int{1, 5}, []int{6})
}

func VerifC03MultiColMap() { program(1, 1, 0, []int{1, 6}, []int{7}) }

// VerifC03ThenWhere: an update or mutation of the integer column followed by an operation whose where-clause is
// on that column: later operations observe the effects of earlier ones.
// VerifC03TwoMutations: one mutate operation carrying two mutations, of the same column or of two columns.
func VerifC03TwoMutSet() {
	forcedKinds = []int{8}
	omitEmpty = rt.Choose(2) == 1
	program(1, 1, 0, []int{5}, []int{8})
}
func VerifC03TwoMutMap() {
	forcedKinds = []int{8}
	omitEmpty = rt.Choose(2) == 1
	program(1, 1, 0, []int{6}, []int{8})
}
func VerifC03TwoMutMix() {
	forcedKinds = []int{8}
	omitEmpty = rt.Choose(2) == 1
	program(1, 1, 0, []int{1, 5, 6}, []int{8})
}

func VerifC03ThenWhere() {
	forcedKinds = []int{2 + rt.Choose(2), 1}
	program(1, 2, 1, []int{1}, []int{1, 2, 3, 4})
}
