// Package c06: unique indexes are enforced at commit, and only at commit (overlay-only harness package).
package c06

import (
	"github.com/google/uuid"
	"github.com/ovn-org/libovsdb/database"
	"github.com/ovn-org/libovsdb/database/inmemory"
	"github.com/ovn-org/libovsdb/model"
	"github.com/ovn-org/libovsdb/ovsdb"
	rt "github.com/ovn-org/libovsdb/verifrt"
	"github.com/ovn-org/libovsdb/zzverif/fix"
)

var debug = false

// touched records the rows an operation of the transaction under test names.
var touched = map[string]bool{}

// used records every row UUID that has existed on the current path.
var used = map[string]bool{}

func newDB() database.Database {
	db := inmemory.NewDatabase(map[string]model.ClientDBModel{"V": fix.ClientModelS3(nil)})
	if err := db.CreateDatabase("V", fix.MustSchema(fix.SchemaS3)); err != nil {
		panic(err)
	}
	return db
}

func run(db database.Database, ops ...ovsdb.Operation) []*ovsdb.OperationResult {
	tx := db.NewTransaction("V")
	res, upd := tx.Transact(ops...)
	for _, r := range res {
		if r != nil && r.Error != "" {
			return res
		}
	}
	if err := db.Commit("V", uuid.New(), upd); err != nil {
		panic("commit: " + err.Error())
	}
	return res
}

type row struct {
	uuid, name, alt string
	num             int
}

func dup(rows []row) bool {
	for i := range rows {
		for j := i + 1; j < len(rows); j++ {
			if rows[i].name == rows[j].name || (rows[i].alt == rows[j].alt && rows[i].num == rows[j].num) {
				return true
			}
		}
	}
	return false
}

func matches(db database.Database, rows []row) bool {
	got, err := db.List("V", "Root")
	if err != nil || len(got) != len(rows) {
		return false
	}
	for _, r := range rows {
		m, ok := got[r.uuid]
		if !ok {
			return false
		}
		g := m.(*fix.Row3)
		if debug {
			rt.Observe("name", g.Name)
			rt.Observe("alt", g.Alt)
			rt.Observe("num", g.Num)
			rt.Observe("wname", r.name)
			rt.Observe("walt", r.alt)
			rt.Observe("wnum", r.num)
		}
		if g.Name != r.name || g.Alt != r.alt || g.Num != r.num {
			return false
		}
	}
	return true
}

func byUUID(u string) []ovsdb.Condition {
	return []ovsdb.Condition{{Column: "_uuid", Function: ovsdb.ConditionEqual, Value: ovsdb.UUID{GoUUID: u}}}
}

func insertOp(r row) ovsdb.Operation {
	return ovsdb.Operation{Op: ovsdb.OperationInsert, Table: "Root", UUID: r.uuid, Row: ovsdb.Row{"name": r.name, "alt": r.alt, "num": r.num}}
}

func symRow(u string) row { return row{u, rt.String(), rt.String(), rt.Int()} }

func clone(rows []row) []row { return append([]row(nil), rows...) }

func remove(rows []row, u string) []row {
	var out []row
	for _, r := range rows {
		if r.uuid != u {
			out = append(out, r)
		}
	}
	return out
}

func has(rows []row, u string) bool {
	for _, r := range rows {
		if r.uuid == u {
			return true
		}
	}
	return false
}

// symOp picks one operation on the reference rows and returns it in wire form.
func symOp(rows *[]row) ovsdb.Operation {
	ids := []string{fix.U1, fix.U2, fix.U3}
	target := ids[rt.Choose(3)]
	touched[target] = true
	if !has(*rows, target) {
		// a UUID is never reused: rows deleted earlier (in this or a previous transaction) are not re-inserted
		rt.Assume(!used[target])
		used[target] = true
		r := symRow(target)
		*rows = append(*rows, r)
		return insertOp(r)
	}
	switch rt.Choose(4) {
	case 0:
		v := rt.String()
		for i := range *rows {
			if (*rows)[i].uuid == target {
				(*rows)[i].name = v
			}
		}
		return ovsdb.Operation{Op: ovsdb.OperationUpdate, Table: "Root", Where: byUUID(target), Row: ovsdb.Row{"name": v}}
	case 1:
		v := rt.String()
		for i := range *rows {
			if (*rows)[i].uuid == target {
				(*rows)[i].alt = v
			}
		}
		return ovsdb.Operation{Op: ovsdb.OperationUpdate, Table: "Root", Where: byUUID(target), Row: ovsdb.Row{"alt": v}}
	case 2:
		v := rt.Int()
		for i := range *rows {
			if (*rows)[i].uuid == target {
				(*rows)[i].num = v
			}
		}
		return ovsdb.Operation{Op: ovsdb.OperationUpdate, Table: "Root", Where: byUUID(target), Row: ovsdb.Row{"num": v}}
	default:
		*rows = remove(*rows, target)
		return ovsdb.Operation{Op: ovsdb.OperationDelete, Table: "Root", Where: byUUID(target)}
	}
}

// history commits an earlier legal transaction of the given kind (states reached through swaps and deletes).
func history(db database.Database, rows *[]row, kind int) {
	if len(*rows) < 2 {
		return
	}
	a, b := (*rows)[0], (*rows)[1]
	switch kind {
	case 1: // swap the names of two rows (a transient duplicate inside the transaction)
		res := run(db,
			ovsdb.Operation{Op: ovsdb.OperationUpdate, Table: "Root", Where: byUUID(a.uuid), Row: ovsdb.Row{"name": b.name}},
			ovsdb.Operation{Op: ovsdb.OperationUpdate, Table: "Root", Where: byUUID(b.uuid), Row: ovsdb.Row{"name": a.name}})
		rt.Assert(len(res) == 2 && res[0].Error == "" && res[1].Error == "", "C06: swapping the indexed values of two rows is accepted")
		(*rows)[0].name, (*rows)[1].name = b.name, a.name
	case 2: // delete a row and insert another one with the same indexed values
		nr := row{fix.U3, a.name, a.alt, a.num}
		used[fix.U3] = true
		res := run(db, ovsdb.Operation{Op: ovsdb.OperationDelete, Table: "Root", Where: byUUID(a.uuid)}, insertOp(nr))
		rt.Assert(len(res) == 2 && res[0].Error == "" && res[1].Error == "", "C06: deleting a row and inserting another with the same value is accepted")
		*rows = append(remove(*rows, a.uuid), nr)
	case 3: // hand a value over: b takes a's name, a gets a new one
		fresh := rt.String()
		rt.Assume(fresh != a.name && fresh != b.name)
		res := run(db,
			ovsdb.Operation{Op: ovsdb.OperationUpdate, Table: "Root", Where: byUUID(b.uuid), Row: ovsdb.Row{"name": a.name}},
			ovsdb.Operation{Op: ovsdb.OperationUpdate, Table: "Root", Where: byUUID(a.uuid), Row: ovsdb.Row{"name": fresh}})
		rt.Assert(len(res) == 2 && res[0].Error == "" && res[1].Error == "", "C06: handing an indexed value over to another row is accepted")
		(*rows)[0].name, (*rows)[1].name = fresh, a.name
	}
	rt.Assert(matches(db, *rows), "C06: the earlier transaction was committed as expected")
}

func scenario(nPre, nOps, hist int) {
	db := newDB()
	var rows []row
	ids := []string{fix.U1, fix.U2}
	for i := 0; i < nPre; i++ {
		rows = append(rows, symRow(ids[i]))
		used[ids[i]] = true
	}
	rt.Assume(!dup(rows))
	if len(rows) > 0 {
		var ops []ovsdb.Operation
		for _, r := range rows {
			ops = append(ops, insertOp(r))
		}
		res := run(db, ops...)
		for _, r := range res {
			rt.Assert(r.Error == "", "C06: seeding a legal state is accepted")
		}
	}
	history(db, &rows, hist)
	before := clone(rows)
	var ops []ovsdb.Operation
	transient := false
	for i := 0; i < nOps; i++ {
		ops = append(ops, symOp(&rows))
		if i < nOps-1 && dup(rows) {
			transient = true
		}
	}
	res := run(db, ops...)
	rt.Reach("ran")
	if dup(rows) {
		// Known finding, kept apart: the commit-time check asks the database for the first conflicting index only.
		// When a final row conflicts on the first index (name) with a committed row this transaction deletes or
		// rewrites (which is rightly ignored), its conflict on the second index with an untouched row is never seen.
		masked := false
		for _, x := range rows {
			for _, d := range before {
				if d.uuid != x.uuid && d.name == x.name && touched[d.uuid] {
					masked = true
				}
			}
		}
		if transient && !masked {
			// Known finding, kept apart: the transaction cache's unique index holds one row per value, so after a
			// transient duplicate it can lose track of rows that still share the value at the end.
			rejected := len(res) == nOps+1 && res[nOps] != nil && res[nOps].Error == "constraint violation"
			rt.Assert(rejected, "C06: a final duplicate is rejected even when the transaction went through a transient duplicate")
			if rejected {
				rt.Assert(matches(db, before), "C06: a rejected transaction commits nothing")
			}
			return
		}
		if masked {
			rejected := len(res) == nOps+1 && res[nOps] != nil && res[nOps].Error == "constraint violation"
			rt.Assert(rejected, "C06: a duplicate on the second index is rejected even when the first index conflicts with a row the transaction deletes or rewrites")
			return
		}
		rt.Assert(len(res) == nOps+1 && res[nOps] != nil && res[nOps].Error == "constraint violation", "C06: a transaction whose final state has two rows equal on an index is rejected with a constraint violation")
		for i := 0; i < nOps && i < len(res); i++ {
			rt.Assert(res[i] != nil && res[i].Error == "", "C06: the operations themselves succeed; the violation is reported once, at commit")
		}
		rt.Assert(matches(db, before), "C06: a rejected transaction commits nothing")
		return
	}
	for _, r := range res {
		rt.Assert(r != nil && r.Error == "", "C06: a transaction whose final state has no duplicate is accepted (transient duplicates are allowed)")
	}
	rt.Assert(matches(db, rows), "C06: the accepted transaction is committed")
	rt.Assert(!dup(rows), "C06: after a commit no two rows agree on all columns of an index")
}

func VerifC06One()      { scenario(rt.Choose(3), 1, 0) }
func VerifC06Two()      { scenario(2, 2, 0) }
func VerifC06TwoHist()  { scenario(2, 1, 1+rt.Choose(3)) }
func VerifC06TwoHist2() { scenario(2, 2, 1+rt.Choose(3)) }
func VerifC06Three()    { scenario(2, 3, 0) }

// ---- a unique index on an optional column: two unset values are equal ----

const schemaOpt = `{"name":"V","version":"1.0.0","tables":{
 "Root":{"isRoot":true,"indexes":[["tag"]],"columns":{
   "name":{"type":"string"},
   "tag":{"type":{"key":"string","min":0,"max":1}}
 }}}}`

type rowOpt struct {
	UUID string  `ovsdb:"_uuid"`
	Name string  `ovsdb:"name"`
	Tag  *string `ovsdb:"tag"`
}

func symTag() *string {
	if rt.Choose(2) == 0 {
		return nil
	}
	s := rt.String()
	return &s
}

func tagSet(t *string) ovsdb.OvsSet {
	if t == nil {
		return ovsdb.OvsSet{GoSet: []interface{}{}}
	}
	return ovsdb.OvsSet{GoSet: []interface{}{*t}}
}

func tagEq(a, b *string) bool { return (a == nil && b == nil) || (a != nil && b != nil && *a == *b) }

// VerifC06Optional: rows r1 (stored) and r2 (stored or not); one transaction inserting r2 or r3, or rewriting the
// tag of a stored row; it is rejected exactly when two rows end up with the same tag, unset counting as a value.
func VerifC06Optional() {
	cm, err := model.NewClientDBModel("V", map[string]model.Model{"Root": &rowOpt{}})
	if err != nil {
		panic(err)
	}
	db := inmemory.NewDatabase(map[string]model.ClientDBModel{"V": cm})
	if err := db.CreateDatabase("V", fix.MustSchema(schemaOpt)); err != nil {
		panic(err)
	}
	tags := map[string]*string{fix.U1: symTag()}
	seed := []ovsdb.Operation{{Op: ovsdb.OperationInsert, Table: "Root", UUID: fix.U1, Row: ovsdb.Row{"name": "r1", "tag": tagSet(tags[fix.U1])}}}
	if rt.Choose(2) == 1 {
		tags[fix.U2] = symTag()
		rt.Assume(!tagEq(tags[fix.U1], tags[fix.U2]))
		seed = append(seed, ovsdb.Operation{Op: ovsdb.OperationInsert, Table: "Root", UUID: fix.U2, Row: ovsdb.Row{"name": "r2", "tag": tagSet(tags[fix.U2])}})
	}
	for _, r := range run(db, seed...) {
		rt.Assert(r.Error == "", "C06: seeding a legal state is accepted")
	}
	var op ovsdb.Operation
	t := symTag()
	after := map[string]*string{}
	for k, v := range tags {
		after[k] = v
	}
	switch rt.Choose(2) {
	case 0: // insert another row
		op = ovsdb.Operation{Op: ovsdb.OperationInsert, Table: "Root", UUID: fix.U3, Row: ovsdb.Row{"name": "r3", "tag": tagSet(t)}}
		after[fix.U3] = t
	case 1: // rewrite the tag of r1
		op = ovsdb.Operation{Op: ovsdb.OperationUpdate, Table: "Root", Where: byUUID(fix.U1), Row: ovsdb.Row{"tag": tagSet(t)}}
		after[fix.U1] = t
	}
	dupAfter := false
	for a, ta := range after {
		for b, tb := range after {
			if a < b && tagEq(ta, tb) {
				dupAfter = true
			}
		}
	}
	res := run(db, op)
	rt.Reach("ran")
	rejected := false
	for _, r := range res {
		if r != nil && r.Error != "" {
			rejected = true
		}
	}
	rows, _ := db.List("V", "Root")
	if dupAfter {
		rt.Assert(rejected, "C06: two rows with the same value of an optional indexed column (both unset included) are rejected")
		rt.Assert(len(rows) == len(tags), "C06: a rejected transaction commits nothing")
	} else {
		rt.Assert(!rejected, "C06: a transaction whose final state has no duplicate is accepted (optional indexed column)")
		rt.Assert(len(rows) == len(after), "C06: the accepted transaction is committed")
	}
}
