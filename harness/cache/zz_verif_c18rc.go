package cache

// C18, row cache: every public method of RowCache returns with the row lock released, on success and on each of
// its error returns (unknown row, duplicate, wrong model type, unknown column, unknown index).

import (
	"github.com/ovn-org/libovsdb/model"
	"github.com/ovn-org/libovsdb/ovsdb"
	rt "github.com/ovn-org/libovsdb/verifrt"
	"github.com/ovn-org/libovsdb/zzverif/fix"
)

func c18rcFree(r *RowCache) bool {
	if r.mutex.TryLock() {
		r.mutex.Unlock()
		return rt.HeldLocks() == 0
	}
	return false
}

func c18rcCall(r *RowCache, which int, row string, wrongType bool) {
	var m model.Model = &fix.Root4{UUID: row, Name: "n1", Num: 1}
	if wrongType {
		m = &fix.Child4{UUID: row}
	}
	switch which {
	case 0:
		r.Row(row)
	case 1:
		r.HasRow(row)
	case 2:
		r.RowByModel(m)
	case 3:
		r.RowsByModels([]model.Model{m})
	case 4:
		r.Create(row, m, true)
	case 5:
		r.Update(row, m, true)
	case 6:
		r.IndexExists(m)
	case 7:
		r.Delete(row)
	case 8:
		r.Rows()
		r.RowsShallow()
		r.Len()
	case 9:
		r.RowsByCondition([]ovsdb.Condition{ovsdb.NewCondition("_uuid", ovsdb.ConditionEqual, ovsdb.UUID{GoUUID: row})})
	case 10:
		r.RowsByCondition([]ovsdb.Condition{ovsdb.NewCondition("name", ovsdb.ConditionEqual, "n1"), ovsdb.NewCondition("nosuchcolumn", ovsdb.ConditionEqual, 1)})
	case 11:
		r.Index("name")
	default:
		r.Index("nosuchcolumn")
	}
}

// VerifC18RowCache: two row-cache calls in a row on a table holding one row.
func VerifC18RowCache() {
	tc, err := NewTableCache(fix.DBModelS4(), nil, nil)
	if err != nil {
		panic(err)
	}
	r := tc.Table("Root")
	if err := r.Create(fix.U1, &fix.Root4{UUID: fix.U1, Name: "n1", Num: 1}, true); err != nil {
		panic(err)
	}
	rows := []string{fix.U1, fix.U2}
	for i := 0; i < 2; i++ {
		which := rt.Choose(13)
		row := rows[rt.Choose(2)]
		wrong := rt.Bool()
		func() {
			defer func() {
				// a panic is C19's subject; the lock is this check's
				recover()
			}()
			c18rcCall(r, which, row, wrong)
		}()
		rt.Assert(c18rcFree(r), "C18: a row-cache call returns with the row lock released")
	}
	rt.Reach("ran")
}
