package ovsdb

// VerifColumnType builds a column type with arbitrary bounds (min/max are unexported; max < 0 means unlimited when
// unlimited is set). Used by harnesses outside this package.
func VerifColumnType(key, value *BaseType, min, max *int) *ColumnType {
	return &ColumnType{Key: key, Value: value, min: min, max: max}
}
