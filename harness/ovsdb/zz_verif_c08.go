package ovsdb

import (
	rt "github.com/ovn-org/libovsdb/verifrt"
)

var vFuncs = []ConditionFunction{ConditionEqual, ConditionNotEqual, ConditionIncludes, ConditionExcludes,
	ConditionLessThan, ConditionLessThanOrEqual, ConditionGreaterThan, ConditionGreaterThanOrEqual}

func vSet(n int, nilWhenEmpty bool) []string {
	if n == 0 {
		if nilWhenEmpty {
			return nil
		}
		return []string{}
	}
	s := make([]string, n)
	for i := range s {
		s[i] = rt.String()
	}
	for i := 0; i < n; i++ {
		for j := i + 1; j < n; j++ {
			rt.Assume(s[i] != s[j])
		}
	}
	return s
}

func vIn(x string, s []string) bool {
	for _, y := range s {
		if x == y {
			return true
		}
	}
	return false
}

func vSubset(a, b []string) bool { // a ⊆ b
	for _, x := range a {
		if !vIn(x, b) {
			return false
		}
	}
	return true
}

func vDisjoint(a, b []string) bool {
	for _, x := range a {
		if vIn(x, b) {
			return false
		}
	}
	return true
}

// VerifC08EvalAtoms: Evaluate on integer, real, boolean and string operands against RFC 7047 §5.1.
func VerifC08EvalAtoms() {
	f := rt.Choose(8)
	fn := vFuncs[f]
	switch rt.Choose(4) {
	case 0:
		a, b := rt.Int(), rt.Int()
		got, err := fn.Evaluate(a, b)
		rt.Reach("post")
		rt.Assert(err == nil, "C08 int: every function is defined on integers")
		want := [...]bool{a == b, a != b, a == b, a != b, a < b, a <= b, a > b, a >= b}[f]
		rt.Assert(got == want, "C08 int: condition result follows RFC 7047")
	case 1:
		a, b := rt.Float64(), rt.Float64()
		got, err := fn.Evaluate(a, b)
		rt.Reach("post")
		rt.Assert(err == nil, "C08 real: every function is defined on reals")
		want := [...]bool{a == b, a != b, a == b, a != b, a < b, a <= b, a > b, a >= b}[f]
		rt.Assert(got == want, "C08 real: condition result follows RFC 7047")
	case 2:
		a, b := rt.Bool(), rt.Bool()
		got, err := fn.Evaluate(a, b)
		rt.Reach("post")
		if f < 4 {
			rt.Assert(err == nil, "C08 bool: ==, !=, includes, excludes are defined on booleans")
			want := [...]bool{a == b, a != b, a == b, a != b}[f]
			rt.Assert(got == want, "C08 bool: condition result follows RFC 7047")
		} else {
			rt.Assert(err != nil || !got, "C08 bool: an order comparison never selects a row")
		}
	case 3:
		a, b := rt.String(), rt.String()
		got, err := fn.Evaluate(a, b)
		rt.Reach("post")
		if f < 4 {
			rt.Assert(err == nil, "C08 string: ==, !=, includes, excludes are defined on strings")
			want := [...]bool{a == b, a != b, a == b, a != b}[f]
			rt.Assert(got == want, "C08 string: condition result follows RFC 7047")
		} else {
			rt.Assert(err != nil || !got, "C08 string: an order comparison never selects a row")
		}
	}
}

// verifC08EvalSets: ==, !=, includes, excludes on sets of strings (sets as sets).
func verifC08EvalSets(max int) {
	f := rt.Choose(4)
	fn := vFuncs[f]
	a := vSet(rt.Choose(max+1), rt.Choose(2) == 0)
	b := vSet(rt.Choose(max+1), false)
	got, err := fn.Evaluate(a, b)
	rt.Reach("post")
	rt.Assert(err == nil, "C08 set: ==, !=, includes, excludes are defined on sets")
	eq := len(a) == len(b) && vSubset(a, b)
	switch f {
	case 0:
		rt.Assert(got == eq, "C08 set ==: true iff the two sets have the same elements")
	case 1:
		rt.Assert(got == !eq, "C08 set !=: true iff the two sets differ")
	case 2:
		rt.Assert(got == vSubset(b, a), "C08 set includes: true iff every element of the argument is in the column")
	case 3:
		rt.Assert(got == vDisjoint(b, a), "C08 set excludes: true iff no element of the argument is in the column")
	}
}

func VerifC08EvalSets2() { verifC08EvalSets(2) }
func VerifC08EvalSets3() { verifC08EvalSets(3) }

type vPair struct{ k, v string }

func vMap(n int, nilWhenEmpty bool) (map[string]string, []vPair) {
	if n == 0 {
		if nilWhenEmpty {
			return nil, nil
		}
		return map[string]string{}, nil
	}
	kv := make([]vPair, n)
	for i := range kv {
		kv[i] = vPair{rt.String(), rt.String()}
	}
	for i := 0; i < n; i++ {
		for j := i + 1; j < n; j++ {
			rt.Assume(kv[i].k != kv[j].k)
		}
	}
	m := make(map[string]string, n)
	for _, e := range kv {
		m[e.k] = e.v
	}
	return m, kv
}

func vHasPair(kv []vPair, p vPair) bool {
	for _, e := range kv {
		if e.k == p.k && e.v == p.v {
			return true
		}
	}
	return false
}

// verifC08EvalMaps: ==, !=, includes, excludes on maps.
func verifC08EvalMaps(max int) {
	f := rt.Choose(4)
	fn := vFuncs[f]
	a, akv := vMap(rt.Choose(max+1), rt.Choose(2) == 0)
	b, bkv := vMap(rt.Choose(max+1), false)
	got, err := fn.Evaluate(a, b)
	rt.Reach("post")
	rt.Assert(err == nil, "C08 map: ==, !=, includes, excludes are defined on maps")
	all, none := true, true
	for _, p := range bkv {
		if vHasPair(akv, p) {
			none = false
		} else {
			all = false
		}
	}
	eq := len(akv) == len(bkv) && all
	switch f {
	case 0:
		rt.Assert(got == eq, "C08 map ==: true iff the two maps have the same pairs")
	case 1:
		rt.Assert(got == !eq, "C08 map !=: true iff the two maps differ")
	case 2:
		rt.Assert(got == all, "C08 map includes: true iff every pair of the argument is in the column")
	case 3:
		rt.Assert(got == none, "C08 map excludes: true iff no pair of the argument is in the column")
	}
}

func VerifC08EvalMaps2() { verifC08EvalMaps(2) }
