package ovsdb

import (
	"encoding/json"

	rt "github.com/ovn-org/libovsdb/verifrt"
)

func vOptFloat() *float64 {
	if rt.Choose(2) == 0 {
		return nil
	}
	f := rt.Float64()
	return &f
}

func vOptEqF(a, b *float64) bool {
	return (a == nil && b == nil) || (a != nil && b != nil && *a == *b)
}

// vBaseType builds a base type of the given atomic kind with every optional constraint present or absent.
func vBaseType(kind int) *BaseType {
	b := &BaseType{}
	switch kind {
	case 0:
		b.Type = TypeInteger
		b.minInteger, b.maxInteger = vOptInt(), vOptInt()
		if rt.Choose(2) == 1 {
			b.Enum = []interface{}{rt.Float64(), rt.Float64()}
		}
	case 1:
		b.Type = TypeReal
		b.minReal, b.maxReal = vOptFloat(), vOptFloat()
		if rt.Choose(2) == 1 {
			b.Enum = []interface{}{0.5, 1.5}
		}
	case 2:
		b.Type = TypeBoolean
		if rt.Choose(2) == 1 {
			b.Enum = []interface{}{true}
		}
	case 3:
		b.Type = TypeString
		b.minLength, b.maxLength = vOptInt(), vOptInt()
		switch rt.Choose(3) {
		case 1:
			b.Enum = []interface{}{rt.String()}
		case 2:
			b.Enum = []interface{}{rt.String(), rt.String()}
		}
	default:
		b.Type = TypeUUID
		b.refTable = vOptString()
		if rt.Choose(2) == 1 {
			t := Weak
			if rt.Choose(2) == 1 {
				t = Strong
			}
			b.refType = &t
		}
	}
	return b
}

func vEnumEq(a, b []interface{}) bool {
	if len(a) != len(b) {
		return false
	}
	for i := range a {
		if !vCellEq(a[i], b[i]) {
			return false
		}
	}
	return true
}

func vBaseEq(a, b *BaseType) bool {
	if a == nil || b == nil {
		return a == nil && b == nil
	}
	return a.Type == b.Type && vEnumEq(a.Enum, b.Enum) &&
		vOptEqF(a.minReal, b.minReal) && vOptEqF(a.maxReal, b.maxReal) &&
		vOptEqI(a.minInteger, b.minInteger) && vOptEqI(a.maxInteger, b.maxInteger) &&
		vOptEqI(a.maxLength, b.maxLength) &&
		vOptEqS(a.refTable, b.refTable) &&
		((a.refType == nil && b.refType == nil) || (a.refType != nil && b.refType != nil && *a.refType == *b.refType))
}

// VerifC12BaseType: every base-type constraint survives encode/decode.
func VerifC12BaseType() {
	b := vBaseType(rt.Choose(5))
	data, err := json.Marshal(b)
	rt.Assert(err == nil, "C12 base type encodes")
	var back BaseType
	err = json.Unmarshal(data, &back)
	rt.Reach("decoded")
	rt.Assert(err == nil, "C12 base type decodes")
	rt.Assert(vBaseEq(b, &back), "C12 base type: type, enum, integer/real bounds, maxLength, refTable, refType round-trip")
	rt.Assert(vOptEqI(b.minLength, back.minLength), "C12 base type: minLength round-trips")
}

func vColumnType() *ColumnType {
	c := &ColumnType{Key: vBaseType(rt.Choose(5))}
	if rt.Choose(2) == 1 {
		c.Value = vBaseType(rt.Choose(5))
	}
	switch rt.Choose(3) {
	case 1:
		m := 0
		c.min = &m
	case 2:
		m := 1
		c.min = &m
	}
	switch rt.Choose(3) {
	case 1:
		m := 2 + 3*rt.Choose(2)
		c.max = &m
	case 2:
		m := Unlimited
		c.max = &m
	}
	return c
}

func vColTypeEq(a, b *ColumnType) bool {
	if a == nil || b == nil {
		return a == nil && b == nil
	}
	return vBaseEq(a.Key, b.Key) && vBaseEq(a.Value, b.Value) && a.Min() == b.Min() && a.Max() == b.Max()
}

// VerifC12Column: column types and column schemas round-trip (min/max/unlimited, ephemeral, mutable).
func VerifC12Column() {
	c := ColumnSchema{TypeObj: vColumnType(), ephemeral: vOptBool(), mutable: vOptBool()}
	data, err := json.Marshal(c)
	rt.Assert(err == nil, "C12 column schema encodes")
	var back ColumnSchema
	err = json.Unmarshal(data, &back)
	rt.Reach("decoded")
	rt.Assert(err == nil, "C12 column schema decodes")
	rt.Assert(vColTypeEq(c.TypeObj, back.TypeObj), "C12 column schema: key, value, min, max round-trip")
	rt.Assert(c.Ephemeral() == back.Ephemeral() && c.Mutable() == back.Mutable(), "C12 column schema: ephemeral and mutable round-trip")
	// a decoded schema re-encodes to JSON that decodes to the same schema
	data2, err := json.Marshal(back)
	rt.Assert(err == nil, "C12 column schema re-encodes")
	var back2 ColumnSchema
	err = json.Unmarshal(data2, &back2)
	rt.Assert(err == nil, "C12 column schema decodes again")
	rt.Assert(back.Type == back2.Type && vColTypeEq(back.TypeObj, back2.TypeObj), "C12 column schema: decode(encode(decoded)) is the same schema")
}

// VerifC12Database: tables, isRoot, indexes, name, version round-trip.
func VerifC12Database() {
	col := ColumnSchema{TypeObj: &ColumnType{Key: &BaseType{Type: TypeString}}}
	t := TableSchema{Columns: map[string]*ColumnSchema{"a": &col}}
	if rt.Choose(2) == 1 {
		t.IsRoot = true
	}
	switch rt.Choose(3) {
	case 1:
		t.Indexes = [][]string{{"a"}}
	case 2:
		t.Indexes = [][]string{{"a"}, {"a", "b"}}
		colb := ColumnSchema{TypeObj: vColumnType()}
		t.Columns["b"] = &colb
	}
	db := DatabaseSchema{Name: rt.String(), Version: rt.String(), Tables: map[string]TableSchema{"T": t}}
	data, err := json.Marshal(db)
	rt.Assert(err == nil, "C12 database schema encodes")
	var back DatabaseSchema
	err = json.Unmarshal(data, &back)
	rt.Reach("decoded")
	rt.Assert(err == nil, "C12 database schema decodes")
	rt.Assert(back.Name == db.Name && back.Version == db.Version && len(back.Tables) == 1, "C12 database schema: name, version, tables round-trip")
	bt, ok := back.Tables["T"]
	rt.Assert(ok, "C12 database schema: table present")
	rt.Assert(bt.IsRoot == t.IsRoot, "C12 database schema: isRoot round-trips")
	rt.Assert(len(bt.Indexes) == len(t.Indexes), "C12 database schema: indexes round-trip")
	for i := range t.Indexes {
		rt.Assert(vStrsEq(bt.Indexes[i], t.Indexes[i]), "C12 database schema: index columns round-trip")
	}
	rt.Assert(len(bt.Columns) == len(t.Columns), "C12 database schema: columns round-trip")
	for name, c := range t.Columns {
		bc := bt.Columns[name]
		rt.Assert(bc != nil && vColTypeEq(c.TypeObj, bc.TypeObj), "C12 database schema: column type round-trips")
	}
}
