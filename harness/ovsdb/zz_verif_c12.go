package ovsdb

import (
	"encoding/json"
	"reflect"

	rt "github.com/ovn-org/libovsdb/verifrt"
)

// ---- generators over the canonical wire domain ----

func vNamed() string {
	s := rt.String()
	rt.Assume(!rt.IsUUID(s))
	return s
}

// vAtom: kind 0 string, 1 real, 2 bool, 3 Go int, 4 UUID, 5 named UUID
func vAtom(kind int) interface{} {
	switch kind {
	case 0:
		return rt.String()
	case 1:
		return rt.Float64()
	case 2:
		return rt.Bool()
	case 3:
		return rt.Int()
	case 4:
		return UUID{GoUUID: rt.UUID()}
	default:
		return UUID{GoUUID: vNamed()}
	}
}

func vCell(shape int) interface{} {
	switch shape {
	case 0, 1, 2, 3, 4, 5:
		return vAtom(shape)
	case 6: // empty set
		return OvsSet{GoSet: []interface{}{}}
	case 7: // set of two strings
		return OvsSet{GoSet: []interface{}{rt.String(), rt.String()}}
	case 8: // set of two uuids
		return OvsSet{GoSet: []interface{}{UUID{GoUUID: rt.UUID()}, UUID{GoUUID: rt.UUID()}}}
	case 9: // one-element set (same notation as its atom)
		return OvsSet{GoSet: []interface{}{vAtom(rt.Choose(5))}}
	case 10: // empty map
		return OvsMap{GoMap: map[interface{}]interface{}{}}
	case 11: // map string->string, 1..2 pairs
		m := map[interface{}]interface{}{}
		k1 := rt.String()
		m[k1] = rt.String()
		if rt.Choose(2) == 1 {
			k2 := rt.String()
			rt.Assume(k1 != k2)
			m[k2] = rt.String()
		}
		return OvsMap{GoMap: m}
	case 12: // map uuid->string
		return OvsMap{GoMap: map[interface{}]interface{}{UUID{GoUUID: rt.UUID()}: rt.String()}}
	case 13: // map string->uuid
		return OvsMap{GoMap: map[interface{}]interface{}{rt.String(): UUID{GoUUID: rt.UUID()}}}
	case 14: // map whose value is a set of uuids (nested set inside a map)
		return OvsMap{GoMap: map[interface{}]interface{}{rt.String(): OvsSet{GoSet: []interface{}{UUID{GoUUID: rt.UUID()}, UUID{GoUUID: rt.UUID()}}}}}
	case 15: // map whose value is a set of strings
		return OvsMap{GoMap: map[interface{}]interface{}{rt.String(): OvsSet{GoSet: []interface{}{rt.String(), rt.String()}}}}
	case 16: // map whose value is the empty set
		return OvsMap{GoMap: map[interface{}]interface{}{rt.String(): OvsSet{GoSet: []interface{}{}}}}
	case 17: // a string of characters JSON has to escape (concrete: the byte-level encoders are interpreted)
		return vAwkward
	case 18: // a set holding such strings
		return OvsSet{GoSet: []interface{}{vAwkward, "plain"}}
	case 19: // a map holding such strings
		return OvsMap{GoMap: map[interface{}]interface{}{vAwkward: vAwkward}}
	default: // map uuid->uuid (both members of a pair are arrays on the wire)
		return OvsMap{GoMap: map[interface{}]interface{}{UUID{GoUUID: rt.UUID()}: UUID{GoUUID: rt.UUID()}}}
	}
}

// vAwkward: bell, vertical tab, SOH, ESC, DEL, quote, backslash, newline, a non-BMP rune, HTML characters.
const vAwkward = "\a\v\x01\x1b\x7f\"\\\n\U000e0001<&>"

const vCellShapes = 21

// vRowShapes bounds the cell shapes used inside rows of composite values (entries narrow it for the quick tier).
var vRowShapes = vCellShapes

// vCanon maps a value to its canonical wire form: Go ints as float64, one-element sets as their atom.
func vCanon(v interface{}) interface{} {
	switch x := v.(type) {
	case int:
		return float64(x)
	case OvsSet:
		if len(x.GoSet) == 1 {
			return vCanon(x.GoSet[0])
		}
		out := make([]interface{}, len(x.GoSet))
		for i, e := range x.GoSet {
			out[i] = vCanon(e)
		}
		return OvsSet{GoSet: out}
	case OvsMap:
		out := make(map[interface{}]interface{}, len(x.GoMap))
		for k, e := range x.GoMap {
			out[vCanon(k)] = vCanon(e)
		}
		return OvsMap{GoMap: out}
	}
	return v
}

func vCellEq(a, b interface{}) bool { return reflect.DeepEqual(vCanon(a), vCanon(b)) }

func vRowEq(a, b Row) bool {
	if len(a) != len(b) {
		return false
	}
	for k, v := range a {
		w, ok := b[k]
		if !ok || !vCellEq(v, w) {
			return false
		}
	}
	return true
}

func vRow(n int) Row {
	r := Row{}
	cols := []string{"c1", "c2"}
	for i := 0; i < n; i++ {
		r[cols[i]] = vCell(rt.Choose(vRowShapes))
	}
	return r
}

// ---- cells, rows ----

func VerifC12Cell() {
	v := vCell(rt.Choose(vCellShapes))
	b, err := json.Marshal(Row{"c": v})
	rt.Assert(err == nil, "C12 cell: a canonical value encodes")
	var back Row
	err = json.Unmarshal(b, &back)
	rt.Reach("decoded")
	rt.Assert(err == nil, "C12 cell: an encoded value decodes")
	w, ok := back["c"]
	rt.Assert(ok && len(back) == 1, "C12 cell: the row has the same columns")
	rt.Assert(vCellEq(v, w), "C12 cell: value round-trips")
}

func VerifC12SetMapUUID() {
	switch rt.Choose(3) {
	case 0:
		v := vCell(6 + rt.Choose(4)).(OvsSet)
		b, err := json.Marshal(v)
		rt.Assert(err == nil, "C12 OvsSet encodes")
		var back OvsSet
		err = json.Unmarshal(b, &back)
		rt.Reach("decoded")
		rt.Assert(err == nil, "C12 OvsSet decodes")
		rt.Assert(len(back.GoSet) == len(v.GoSet), "C12 OvsSet: same number of elements")
		rt.Assert(vCellEq(v, back), "C12 OvsSet round-trips")
	case 1:
		v := vCell(10 + rt.Choose(7)).(OvsMap)
		b, err := json.Marshal(v)
		rt.Assert(err == nil, "C12 OvsMap encodes")
		var back OvsMap
		err = json.Unmarshal(b, &back)
		rt.Reach("decoded")
		rt.Assert(err == nil, "C12 OvsMap decodes")
		rt.Assert(vCellEq(v, back), "C12 OvsMap round-trips")
	case 2:
		v := vAtom(4 + rt.Choose(2)).(UUID)
		b, err := json.Marshal(v)
		rt.Assert(err == nil, "C12 UUID encodes")
		var back UUID
		err = json.Unmarshal(b, &back)
		rt.Reach("decoded")
		rt.Assert(err == nil, "C12 UUID decodes")
		rt.Assert(back.GoUUID == v.GoUUID, "C12 UUID / named UUID round-trips")
	}
}

// ---- conditions, mutations ----

var vMutators = []Mutator{MutateOperationDelete, MutateOperationInsert, MutateOperationAdd, MutateOperationSubtract,
	MutateOperationMultiply, MutateOperationDivide, MutateOperationModulo}

func vCondition() Condition {
	return Condition{Column: rt.String(), Function: vFuncs[rt.Choose(8)], Value: vCell(rt.Choose(vCellShapes))}
}

func vCondEq(a, b Condition) bool {
	return a.Column == b.Column && a.Function == b.Function && vCellEq(a.Value, b.Value)
}

func vMutation() Mutation {
	return Mutation{Column: rt.String(), Mutator: vMutators[rt.Choose(7)], Value: vCell(rt.Choose(vCellShapes))}
}

func vMutEq(a, b Mutation) bool {
	return a.Column == b.Column && a.Mutator == b.Mutator && vCellEq(a.Value, b.Value)
}

func VerifC12CondMut() {
	if rt.Choose(2) == 0 {
		c := vCondition()
		b, err := json.Marshal(c)
		rt.Assert(err == nil, "C12 condition encodes")
		var back Condition
		err = json.Unmarshal(b, &back)
		rt.Reach("decoded")
		rt.Assert(err == nil, "C12 condition decodes")
		rt.Assert(vCondEq(c, back), "C12 condition round-trips")
	} else {
		m := vMutation()
		b, err := json.Marshal(m)
		rt.Assert(err == nil, "C12 mutation encodes")
		var back Mutation
		err = json.Unmarshal(b, &back)
		rt.Reach("decoded")
		rt.Assert(err == nil, "C12 mutation decodes")
		rt.Assert(vMutEq(m, back), "C12 mutation round-trips")
	}
}

// ---- operations ----

func vOptBool() *bool {
	if rt.Choose(2) == 0 {
		return nil
	}
	b := rt.Bool()
	return &b
}

func vOptString() *string {
	if rt.Choose(2) == 0 {
		return nil
	}
	s := rt.String()
	return &s
}

func vOptInt() *int {
	if rt.Choose(2) == 0 {
		return nil
	}
	i := rt.Int()
	return &i
}

func vWhere() []Condition {
	switch rt.Choose(3) {
	case 0:
		return nil
	case 1:
		return []Condition{}
	}
	return []Condition{{Column: rt.String(), Function: vFuncs[rt.Choose(8)], Value: vCell(rt.Choose(6))}}
}

func vStrs() []string {
	switch rt.Choose(3) {
	case 0:
		return nil
	case 1:
		return []string{rt.String()}
	}
	return []string{rt.String(), rt.String()}
}

func vOperation(kind int) Operation {
	switch kind {
	case 0:
		op := Operation{Op: OperationInsert, Table: rt.String(), Row: vRow(rt.Choose(2))}
		if rt.Choose(2) == 1 {
			op.UUIDName = rt.String()
		}
		if rt.Choose(2) == 1 {
			op.UUID = rt.UUID()
		}
		return op
	case 1:
		return Operation{Op: OperationSelect, Table: rt.String(), Where: vWhere(), Columns: vStrs()}
	case 2:
		return Operation{Op: OperationUpdate, Table: rt.String(), Where: vWhere(), Row: vRow(1)}
	case 3:
		op := Operation{Op: OperationMutate, Table: rt.String(), Where: vWhere()}
		if rt.Choose(2) == 1 {
			op.Mutations = []Mutation{{Column: rt.String(), Mutator: vMutators[rt.Choose(7)], Value: vCell(rt.Choose(6))}}
		}
		return op
	case 4:
		return Operation{Op: OperationDelete, Table: rt.String(), Where: vWhere()}
	case 5:
		op := Operation{Op: OperationWait, Table: rt.String(), Where: vWhere(), Columns: vStrs(), Timeout: vOptInt()}
		if rt.Choose(2) == 1 {
			op.Until = "=="
		} else {
			op.Until = "!="
		}
		if rt.Choose(2) == 1 {
			op.Rows = []Row{vRow(1)}
		}
		return op
	case 6:
		return Operation{Op: OperationCommit, Durable: vOptBool()}
	case 7:
		return Operation{Op: OperationAbort}
	case 8:
		return Operation{Op: OperationComment, Comment: vOptString()}
	default:
		return Operation{Op: OperationAssert, Lock: vOptString()}
	}
}

func vOptEqB(a, b *bool) bool {
	return (a == nil && b == nil) || (a != nil && b != nil && *a == *b)
}
func vOptEqS(a, b *string) bool {
	return (a == nil && b == nil) || (a != nil && b != nil && *a == *b)
}
func vOptEqI(a, b *int) bool {
	return (a == nil && b == nil) || (a != nil && b != nil && *a == *b)
}

func vStrsEq(a, b []string) bool {
	if len(a) != len(b) {
		return false
	}
	for i := range a {
		if a[i] != b[i] {
			return false
		}
	}
	return true
}

func VerifC12OperationQ() { vRowShapes = 7; VerifC12Operation() }
func VerifC12UpdatesQ()   { vRowShapes = 7; VerifC12Updates() }

func VerifC12Operation() {
	op := vOperation(rt.Choose(10))
	b, err := json.Marshal(op)
	rt.Assert(err == nil, "C12 operation encodes")
	var back Operation
	err = json.Unmarshal(b, &back)
	rt.Reach("decoded")
	rt.Assert(err == nil, "C12 operation decodes")
	rt.Assert(back.Op == op.Op && back.Table == op.Table, "C12 operation: op and table round-trip")
	rt.Assert(vRowEq(op.Row, back.Row), "C12 operation: row round-trips")
	rt.Assert(len(op.Rows) == len(back.Rows) && (len(op.Rows) == 0 || vRowEq(op.Rows[0], back.Rows[0])), "C12 operation: rows round-trip")
	rt.Assert(vStrsEq(op.Columns, back.Columns), "C12 operation: columns round-trip")
	rt.Assert(len(op.Where) == len(back.Where) && (len(op.Where) == 0 || vCondEq(op.Where[0], back.Where[0])), "C12 operation: where round-trips")
	rt.Assert(len(op.Mutations) == len(back.Mutations) && (len(op.Mutations) == 0 || vMutEq(op.Mutations[0], back.Mutations[0])), "C12 operation: mutations round-trip")
	rt.Assert(vOptEqI(op.Timeout, back.Timeout), "C12 operation: timeout round-trips")
	rt.Assert(op.Until == back.Until, "C12 operation: until round-trips")
	rt.Assert(vOptEqB(op.Durable, back.Durable), "C12 operation: durable round-trips")
	rt.Assert(vOptEqS(op.Comment, back.Comment), "C12 operation: comment round-trips")
	rt.Assert(vOptEqS(op.Lock, back.Lock), "C12 operation: lock round-trips")
	rt.Assert(op.UUID == back.UUID && op.UUIDName == back.UUIDName, "C12 operation: uuid and uuid-name round-trip")
}

// ---- updates, monitor requests/replies, results ----

func vOptRow() *Row {
	if rt.Choose(2) == 0 {
		return nil
	}
	r := vRow(1)
	return &r
}

func vOptRowEq(a, b *Row) bool {
	return (a == nil && b == nil) || (a != nil && b != nil && vRowEq(*a, *b))
}

func VerifC12Updates() {
	switch rt.Choose(3) {
	case 0:
		tu := TableUpdates{}
		n := rt.Choose(3)
		rows := []string{"u1", "u2"}
		var rus []*RowUpdate
		if n > 0 {
			t := TableUpdate{}
			for i := 0; i < n; i++ {
				ru := &RowUpdate{New: vOptRow(), Old: vOptRow()}
				t[rows[i]] = ru
				rus = append(rus, ru)
			}
			tu["T"] = t
		}
		b, err := json.Marshal(tu)
		rt.Assert(err == nil, "C12 table-updates encodes")
		var back TableUpdates
		err = json.Unmarshal(b, &back)
		rt.Reach("decoded")
		rt.Assert(err == nil, "C12 table-updates decodes")
		rt.Assert(len(back) == len(tu) && len(back["T"]) == n, "C12 table-updates: same tables and rows")
		for i := 0; i < n; i++ {
			br := back["T"][rows[i]]
			rt.Assert(br != nil && vOptRowEq(rus[i].New, br.New) && vOptRowEq(rus[i].Old, br.Old), "C12 table-updates: row update round-trips")
		}
	case 1:
		tu := TableUpdates2{}
		ru := &RowUpdate2{}
		switch rt.Choose(4) {
		case 0:
			ru.Initial = vOptRow()
		case 1:
			ru.Insert = vOptRow()
		case 2:
			ru.Modify = vOptRow()
		case 3:
			ru.Delete = vOptRow()
		}
		tu["T"] = TableUpdate2{"u1": ru}
		b, err := json.Marshal(tu)
		rt.Assert(err == nil, "C12 table-updates2 encodes")
		var back TableUpdates2
		err = json.Unmarshal(b, &back)
		rt.Reach("decoded")
		rt.Assert(err == nil, "C12 table-updates2 decodes")
		br := back["T"]["u1"]
		rt.Assert(br != nil, "C12 table-updates2: same tables and rows")
		if br != nil {
			rt.Assert(vOptRowEq(ru.Initial, br.Initial) && vOptRowEq(ru.Insert, br.Insert) && vOptRowEq(ru.Modify, br.Modify) && vOptRowEq(ru.Delete, br.Delete), "C12 table-updates2: row update round-trips")
		}
	case 2:
		rep := MonitorCondSinceReply{Found: rt.Bool(), LastTransactionID: rt.String()}
		withRow := rt.Choose(2) == 1
		var row Row
		if withRow {
			row = vRow(1)
			rep.Updates = TableUpdates2{"T": TableUpdate2{"u1": &RowUpdate2{Insert: &row}}}
		} else if rt.Choose(2) == 1 {
			rep.Updates = TableUpdates2{}
		}
		b, err := json.Marshal(rep)
		rt.Assert(err == nil, "C12 monitor_cond_since reply encodes")
		var back MonitorCondSinceReply
		err = json.Unmarshal(b, &back)
		rt.Reach("decoded")
		rt.Assert(err == nil, "C12 monitor_cond_since reply decodes")
		rt.Assert(back.Found == rep.Found && back.LastTransactionID == rep.LastTransactionID, "C12 monitor_cond_since reply: found and txn id round-trip")
		rt.Assert(len(back.Updates) == len(rep.Updates), "C12 monitor_cond_since reply: updates round-trip")
		if withRow {
			br := back.Updates["T"]["u1"]
			rt.Assert(br != nil && br.Insert != nil && vRowEq(row, *br.Insert), "C12 monitor_cond_since reply: rows round-trip")
		}
	}
}

func VerifC12Monitor() {
	switch rt.Choose(2) {
	case 0:
		ms := MonitorSelect{initial: vOptBool(), insert: vOptBool(), delete: vOptBool(), modify: vOptBool()}
		b, err := json.Marshal(ms)
		rt.Assert(err == nil, "C12 monitor select encodes")
		var back MonitorSelect
		err = json.Unmarshal(b, &back)
		rt.Reach("decoded")
		rt.Assert(err == nil, "C12 monitor select decodes")
		rt.Assert(vOptEqB(ms.initial, back.initial) && vOptEqB(ms.insert, back.insert) && vOptEqB(ms.delete, back.delete) && vOptEqB(ms.modify, back.modify), "C12 monitor select round-trips")
	case 1:
		mr := MonitorRequest{Columns: vStrs(), Where: vWhere()}
		if rt.Choose(2) == 1 {
			mr.Select = &MonitorSelect{initial: vOptBool(), modify: vOptBool()}
		}
		b, err := json.Marshal(mr)
		rt.Assert(err == nil, "C12 monitor request encodes")
		var back MonitorRequest
		err = json.Unmarshal(b, &back)
		rt.Reach("decoded")
		rt.Assert(err == nil, "C12 monitor request decodes")
		rt.Assert(vStrsEq(mr.Columns, back.Columns), "C12 monitor request: columns round-trip")
		rt.Assert(len(mr.Where) == len(back.Where) && (len(mr.Where) == 0 || vCondEq(mr.Where[0], back.Where[0])), "C12 monitor request: where round-trips")
		rt.Assert((mr.Select == nil) == (back.Select == nil), "C12 monitor request: select presence round-trips")
		if mr.Select != nil && back.Select != nil {
			rt.Assert(vOptEqB(mr.Select.initial, back.Select.initial) && vOptEqB(mr.Select.modify, back.Select.modify), "C12 monitor request: select round-trips")
		}
	}
}

func VerifC12Result() {
	r := OperationResult{}
	switch rt.Choose(4) {
	case 0:
		r.Count = rt.Int()
		rt.Assume(r.Count >= 0)
	case 1:
		r.UUID = UUID{GoUUID: rt.UUID()}
	case 2:
		r.Rows = []Row{vRow(1)}
	case 3:
		r.Error = rt.String()
		r.Details = rt.String()
	}
	b, err := json.Marshal(r)
	rt.Assert(err == nil, "C12 operation result encodes")
	var back OperationResult
	err = json.Unmarshal(b, &back)
	rt.Reach("decoded")
	rt.Assert(err == nil, "C12 operation result decodes")
	rt.Assert(back.Count == r.Count && back.Error == r.Error && back.Details == r.Details && back.UUID.GoUUID == r.UUID.GoUUID, "C12 operation result round-trips")
	rt.Assert(len(back.Rows) == len(r.Rows) && (len(r.Rows) == 0 || vRowEq(r.Rows[0], back.Rows[0])), "C12 operation result: rows round-trip")
}
