package ovsdb

import (
	"encoding/json"

	rt "github.com/ovn-org/libovsdb/verifrt"
)

// Each harness decodes an arbitrary JSON document (lazy shape, symbolic leaves) with one decoder.
// The property is: a value or an error, never a panic. A panic on a feasible path is reported by the executor.

func verifC19Decode(which int, depth, width int) {
	switch which {
	case 0:
		var x OvsSet
		_ = json.Unmarshal(rt.LazyJSON(depth, width, ""), &x)
	case 1:
		var x OvsMap
		_ = json.Unmarshal(rt.LazyJSON(depth, width, ""), &x)
	case 2:
		var x UUID
		_ = json.Unmarshal(rt.LazyJSON(depth, width, ""), &x)
	case 3:
		var x Row
		_ = json.Unmarshal(rt.LazyJSON(depth, width, "a"), &x)
	case 4:
		var x Condition
		_ = json.Unmarshal(rt.LazyJSON(depth, width, ""), &x)
	case 5:
		var x Mutation
		_ = json.Unmarshal(rt.LazyJSON(depth, width, ""), &x)
	case 6:
		var x Operation
		_ = json.Unmarshal(rt.LazyJSON(depth, width, "op,table,row,where,mutations,timeout,rows,columns,uuid-name"), &x)
	case 7:
		var x TableUpdates
		_ = json.Unmarshal(rt.LazyJSON(depth, width, "t,old,new"), &x)
	case 8:
		var x TableUpdates2
		_ = json.Unmarshal(rt.LazyJSON(depth, width, "t,initial,insert,modify,delete"), &x)
	case 9:
		var x MonitorCondSinceReply
		_ = json.Unmarshal(rt.LazyJSON(depth, width, "t"), &x)
	case 10:
		var x BaseType
		_ = json.Unmarshal(rt.LazyJSON(depth, width, "type,enum,minInteger,maxInteger,minReal,maxReal,minLength,maxLength,refTable,refType"), &x)
	case 11:
		var x ColumnType
		_ = json.Unmarshal(rt.LazyJSON(depth, width, "key,value,min,max,type"), &x)
	case 12:
		var x ColumnSchema
		_ = json.Unmarshal(rt.LazyJSON(depth, width, "type,ephemeral,mutable,key,value,min,max"), &x)
	case 13:
		var x DatabaseSchema
		_ = json.Unmarshal(rt.LazyJSON(depth, width, "name,version,tables,columns,indexes,isRoot,type"), &x)
	case 14:
		var x MonitorSelect
		_ = json.Unmarshal(rt.LazyJSON(depth, width, "initial,insert,delete,modify"), &x)
	case 15:
		var x MonitorRequest
		_ = json.Unmarshal(rt.LazyJSON(depth, width, "columns,where,select"), &x)
	case 16:
		var x OperationResult
		_ = json.Unmarshal(rt.LazyJSON(depth, width, "count,error,details,uuid,rows"), &x)
	case 17:
		var x []interface{}
		if json.Unmarshal(rt.LazyJSON(depth, width, ""), &x) == nil {
			_, _ = ovsSliceToGoNotation(x)
		}
	}
	rt.Reach("decoded")
}

func VerifC19Set22()        { verifC19Decode(0, 2, 2) }
func VerifC19Map22()        { verifC19Decode(1, 2, 2) }
func VerifC19Map32()        { verifC19Decode(1, 3, 2) }
func VerifC19UUID22()       { verifC19Decode(2, 2, 2) }
func VerifC19Row22()        { verifC19Decode(3, 2, 2) }
func VerifC19Cond22()       { verifC19Decode(4, 2, 3) }
func VerifC19Mut22()        { verifC19Decode(5, 2, 3) }
func VerifC19Op22()         { verifC19Decode(6, 2, 2) }
func VerifC19TU22()         { verifC19Decode(7, 3, 2) }
func VerifC19TU2()          { verifC19Decode(8, 3, 2) }
func VerifC19MCSR()         { verifC19Decode(9, 2, 3) }
func VerifC19BaseType()     { verifC19Decode(10, 2, 2) }
func VerifC19ColumnType()   { verifC19Decode(11, 2, 2) }
func VerifC19ColumnSchema() { verifC19Decode(12, 2, 2) }
func VerifC19DBSchema()     { verifC19Decode(13, 3, 2) }
func VerifC19MonSelect()    { verifC19Decode(14, 2, 2) }
func VerifC19MonRequest()   { verifC19Decode(15, 2, 2) }
func VerifC19OpResult()     { verifC19Decode(16, 2, 2) }
func VerifC19Slice()        { verifC19Decode(17, 2, 2) }

func VerifC19Map42() { verifC19Decode(1, 4, 2) }
func VerifC19Set32() { verifC19Decode(0, 3, 2) }
func VerifC19Row32() { verifC19Decode(3, 3, 2) }
