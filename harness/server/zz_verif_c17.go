package server

// C17: transactions are serialisable and every monitor observes them in the serial order.
//
// (a) certificate: on every path through OvsdbServer.Transact, every read or write of the database and every
//     notification happens while the server's transaction lock is held, and the lock is released on return;
// (b) two logical threads run Transact concurrently, with a preemption point at every database access and every
//     notification: every explored schedule ends in a state, results and notification order of a serial execution.

import (
	"encoding/json"

	"github.com/cenkalti/rpc2"
	"github.com/google/uuid"
	"github.com/ovn-org/libovsdb/cache"
	"github.com/ovn-org/libovsdb/database"
	"github.com/ovn-org/libovsdb/database/inmemory"
	"github.com/ovn-org/libovsdb/database/transaction"
	"github.com/ovn-org/libovsdb/model"
	"github.com/ovn-org/libovsdb/ovsdb"
	rt "github.com/ovn-org/libovsdb/verifrt"
	"github.com/ovn-org/libovsdb/zzverif/fix"
)

// c17Spy wraps the database: every access made by the server is a preemption point and is checked against the lock.
type c17Spy struct {
	inner    database.Database
	srv      *OvsdbServer
	inTxn    *int // > 0 while some Transact call is running
	accesses int
}

func (s *c17Spy) at(what string) {
	s.accesses++
	if c17Cert && *s.inTxn > 0 {
		held := true
		if s.srv.txnMutex.TryLock() {
			s.srv.txnMutex.Unlock()
			held = false
		}
		rt.Assert(held, "C17: the database is read or written ("+what+") only while the transaction lock is held")
	}
	rt.Yield()
}

func (s *c17Spy) CreateDatabase(name string, schema ovsdb.DatabaseSchema) error {
	return s.inner.CreateDatabase(name, schema)
}
func (s *c17Spy) Exists(name string) bool { return s.inner.Exists(name) }
func (s *c17Spy) NewTransaction(name string) database.Transaction {
	s.at("NewTransaction")
	t := s.inner.NewTransaction(name)
	if tx, ok := t.(*transaction.Transaction); ok {
		tx.Database = s // the transaction reads through the spy
	}
	return t
}
func (s *c17Spy) Commit(db string, id uuid.UUID, u database.Update) error {
	s.at("Commit")
	return s.inner.Commit(db, id, u)
}
func (s *c17Spy) CheckIndexes(db string, table string, m model.Model) error {
	s.at("CheckIndexes")
	return s.inner.CheckIndexes(db, table, m)
}
func (s *c17Spy) List(db, table string, conditions ...ovsdb.Condition) (map[string]model.Model, error) {
	s.at("List")
	return s.inner.List(db, table, conditions...)
}
func (s *c17Spy) Get(db, table string, uuid string) (model.Model, error) {
	s.at("Get")
	return s.inner.Get(db, table, uuid)
}
func (s *c17Spy) GetReferences(db, table, row string) (database.References, error) {
	s.at("GetReferences")
	return s.inner.GetReferences(db, table, row)
}

// c17Cert: the lock-discipline assertions are on (certificate entries); the concurrent entries judge outcomes only.
var c17Cert bool

type c17Env struct {
	spy   *c17Spy
	srv   *OvsdbServer
	mon   *rpc2.Client
	cli   [2]*rpc2.Client
	notes []json.RawMessage
	rep   *cache.TableCache
	inTxn int
}

func c17Raw(v interface{}) json.RawMessage {
	b, err := json.Marshal(v)
	if err != nil {
		panic(err)
	}
	return b
}

func newC17Env() *c17Env {
	e := &c17Env{}
	inner := inmemory.NewDatabase(map[string]model.ClientDBModel{"V": fix.ClientModelS4()})
	e.spy = &c17Spy{inner: inner, inTxn: &e.inTxn}
	srv, err := NewOvsdbServer(e.spy, fix.DBModelS4())
	if err != nil {
		panic(err)
	}
	e.srv = srv
	e.spy.srv = srv
	e.mon = rt.NewRPCClient(func(method string, args []json.RawMessage) (interface{}, error) {
		if c17Cert && e.inTxn > 0 {
			held := true
			if srv.txnMutex.TryLock() {
				srv.txnMutex.Unlock()
				held = false
			}
			rt.Assert(held, "C17: monitors are notified only while the transaction lock is held")
		}
		rt.Yield()
		e.notes = append(e.notes, args[len(args)-1])
		return []interface{}{}, nil
	})
	for i := range e.cli {
		e.cli[i] = rt.NewRPCClient(func(method string, args []json.RawMessage) (interface{}, error) {
			return []interface{}{}, nil
		})
	}
	rep, err := cache.NewTableCache(fix.DBModelS4(), nil, nil)
	if err != nil {
		panic(err)
	}
	e.rep = rep
	return e
}

func (e *c17Env) transact(who int, ops ...ovsdb.Operation) ([]*ovsdb.OperationResult, error) {
	args := []json.RawMessage{c17Raw("V")}
	for _, op := range ops {
		args = append(args, c17Raw(op))
	}
	var reply []*ovsdb.OperationResult
	e.inTxn++
	err := e.srv.Transact(e.cli[who], args, &reply)
	e.inTxn--
	return reply, err
}

func (e *c17Env) monitor() {
	req := map[string]*ovsdb.MonitorRequest{"Root": {}}
	var reply ovsdb.TableUpdates2
	rt.Assert(e.srv.MonitorCond(e.mon, []json.RawMessage{c17Raw("V"), c17Raw("m"), c17Raw(req)}, &reply) == nil, "C17: monitor accepted")
	rt.Assert(e.rep.Populate2(reply) == nil, "C17: initial contents apply")
}

func c17Failed(res []*ovsdb.OperationResult, err error) bool {
	if err != nil {
		return true
	}
	for _, r := range res {
		if r != nil && r.Error != "" {
			return true
		}
	}
	return false
}

func c17ByUUID(u string) []ovsdb.Condition {
	return []ovsdb.Condition{{Column: "_uuid", Function: ovsdb.ConditionEqual, Value: ovsdb.UUID{GoUUID: u}}}
}

// c17Op is one client transaction from the menu; kind 0: increment the counter of the stored row; 1: insert a row
// with a fixed (unique-indexed) name; 2: replace the counter by a symbolic value; 3: delete the stored row; 4: select
// the contended name, then insert it.
func c17Op(kind int, v int) []ovsdb.Operation {
	switch kind {
	case 0:
		return []ovsdb.Operation{{Op: ovsdb.OperationMutate, Table: "Root", Where: c17ByUUID(fix.U1),
			Mutations: []ovsdb.Mutation{{Column: "num", Mutator: ovsdb.MutateOperationAdd, Value: 1}}}}
	case 1:
		return []ovsdb.Operation{{Op: ovsdb.OperationInsert, Table: "Root", Row: ovsdb.Row{"name": "contended", "num": v}}}
	case 2:
		return []ovsdb.Operation{{Op: ovsdb.OperationUpdate, Table: "Root", Where: c17ByUUID(fix.U1), Row: ovsdb.Row{"num": v}}}
	case 3:
		return []ovsdb.Operation{{Op: ovsdb.OperationDelete, Table: "Root", Where: c17ByUUID(fix.U1)}}
	default: // insert-if-absent as clients write it: look the value up, then insert
		return []ovsdb.Operation{
			{Op: ovsdb.OperationSelect, Table: "Root", Where: []ovsdb.Condition{{Column: "name", Function: ovsdb.ConditionEqual, Value: "contended"}}},
			{Op: ovsdb.OperationInsert, Table: "Root", Row: ovsdb.Row{"name": "contended", "num": v}}}
	}
}

// c17State is the reference: the stored row's counter (or gone) and the values of the contended rows.
type c17State struct {
	has       bool
	num       int
	contended []int
}

func (s c17State) apply(kind, v int) (c17State, bool) {
	switch kind {
	case 0:
		if s.has {
			s.num++
		}
		return s, true
	case 1, 4:
		if len(s.contended) > 0 {
			return s, false
		}
		s.contended = []int{v}
		return s, true
	case 2:
		if s.has {
			s.num = v
		}
		return s, true
	default:
		s.has = false
		return s, true
	}
}

const c17Kinds = 5

func (e *c17Env) dbState() (c17State, bool) {
	rows, err := e.spy.inner.List("V", "Root")
	if err != nil {
		return c17State{}, false
	}
	s := c17State{}
	for u, m := range rows {
		r := m.(*fix.Root4)
		if u == fix.U1 {
			s.has, s.num = true, r.Num
		} else if r.Name == "contended" {
			s.contended = append(s.contended, r.Num)
		} else {
			return s, false
		}
	}
	return s, true
}

func c17Same(a, b c17State) bool {
	if a.has != b.has || (a.has && a.num != b.num) || len(a.contended) != len(b.contended) {
		return false
	}
	for i := range a.contended {
		if a.contended[i] != b.contended[i] {
			return false
		}
	}
	return true
}

func (e *c17Env) mirrors() bool {
	rows, _ := e.spy.inner.List("V", "Root")
	rep := e.rep.Table("Root").Rows()
	if len(rows) != len(rep) {
		return false
	}
	for u, m := range rows {
		r, ok := rep[u]
		if !ok {
			return false
		}
		a, b := m.(*fix.Root4), r.(*fix.Root4)
		if a.Name != b.Name || a.Num != b.Num {
			return false
		}
	}
	return true
}

func (e *c17Env) seed(n0 int) {
	res, err := e.transact(0, ovsdb.Operation{Op: ovsdb.OperationInsert, Table: "Root", UUID: fix.U1, Row: ovsdb.Row{"name": "r1", "num": n0}})
	rt.Assert(!c17Failed(res, err), "C17: seeding is accepted")
}

// VerifC17Certificate: one Transact call with a symbolic transaction (also failing ones): lock discipline.
func VerifC17Certificate() {
	c17Cert = true
	e := newC17Env()
	e.seed(rt.Int())
	e.monitor()
	before := e.spy.accesses
	var ops []ovsdb.Operation
	switch k := rt.Choose(6); k {
	case 4: // an operation that fails
		ops = []ovsdb.Operation{{Op: ovsdb.OperationUpdate, Table: "Nope", Where: c17ByUUID(fix.U1), Row: ovsdb.Row{"num": 1}}}
	case 5: // a commit-time failure (duplicate index value)
		ops = []ovsdb.Operation{{Op: ovsdb.OperationInsert, Table: "Root", Row: ovsdb.Row{"name": "r1"}}}
	default:
		ops = c17Op(k, rt.Int())
	}
	_, _ = e.transact(0, ops...)
	rt.Reach("ran")
	rt.Assert(e.spy.accesses > before, "C17: the transaction went through the observed database")
	free := e.srv.txnMutex.TryLock()
	rt.Assert(free, "C17: the transaction lock is released when Transact returns")
	if free {
		e.srv.txnMutex.Unlock()
	}
	rt.Assert(rt.HeldLocks() == 0, "C17: no lock is held when Transact returns")
}

// VerifC17Malformed: Transact with malformed arguments returns with the lock released.
func VerifC17Malformed() {
	e := newC17Env()
	var args []json.RawMessage
	switch rt.Choose(3) {
	case 0:
		args = []json.RawMessage{c17Raw("V")}
	case 1:
		args = []json.RawMessage{c17Raw(1), c17Raw(1)}
	case 2:
		args = []json.RawMessage{c17Raw("V"), c17Raw("not an operation")}
	}
	var reply []*ovsdb.OperationResult
	_ = e.srv.Transact(e.cli[0], args, &reply)
	rt.Reach("ran")
	free := e.srv.txnMutex.TryLock()
	rt.Assert(free, "C17: the transaction lock is released when Transact returns an error")
	if free {
		e.srv.txnMutex.Unlock()
	}
}

// VerifC17Two: two clients submit one transaction each, concurrently.
func VerifC17Two() {
	e := newC17Env()
	n0 := 5 // concrete values: the schedule, not the arithmetic, is what this entry explores
	e.seed(n0)
	e.monitor()
	k := [2]int{rt.Choose(c17Kinds), rt.Choose(c17Kinds)}
	v := [2]int{20, 30}
	var ok [2]bool
	done := 0
	for i := 0; i < 2; i++ {
		i := i
		go func() {
			res, err := e.transact(i, c17Op(k[i], v[i])...)
			ok[i] = !c17Failed(res, err)
			done++
		}()
	}
	for tries := 0; done < 2 && tries < 200; tries++ {
		rt.RunPending()
	}
	rt.Reach("ran")
	rt.Assert(done == 2, "C17: both concurrent Transact calls return")
	if done != 2 {
		return
	}
	got, wellFormed := e.dbState()
	rt.Assert(wellFormed, "C17: the database holds only rows some transaction wrote")
	start := c17State{has: true, num: n0}
	match := false
	for first := 0; first < 2; first++ {
		s1, ok1 := start.apply(k[first], v[first])
		s2, ok2 := s1.apply(k[1-first], v[1-first])
		if c17Same(got, s2) && ok[first] == ok1 && ok[1-first] == ok2 {
			match = true
		}
	}
	rt.Assert(match, "C17: results and final contents are those of running the two transactions one after the other in some order")
	for _, n := range e.notes {
		var tu ovsdb.TableUpdates2
		rt.Assert(json.Unmarshal(n, &tu) == nil && e.rep.Populate2(tu) == nil, "C17: notifications apply in the order received")
	}
	rt.Assert(e.mirrors(), "C17: a monitor that applies its notifications in the order received ends with the database contents")
}

// VerifC17TwoTwo: two clients submit two transactions each (increment / contended insert / overwrite), concurrently.
func VerifC17TwoTwo() {
	e := newC17Env()
	n0 := 5
	e.seed(n0)
	e.monitor()
	var k, v [2][2]int
	for i := 0; i < 2; i++ {
		for j := 0; j < 2; j++ {
			k[i][j] = []int{0, 1, 2, 4}[rt.Choose(4)]
			v[i][j] = 20 + 10*i + j
		}
	}
	var ok [2][2]bool
	done := 0
	for i := 0; i < 2; i++ {
		i := i
		go func() {
			for j := 0; j < 2; j++ {
				res, err := e.transact(i, c17Op(k[i][j], v[i][j])...)
				ok[i][j] = !c17Failed(res, err)
			}
			done++
		}()
	}
	for tries := 0; done < 2 && tries < 400; tries++ {
		rt.RunPending()
	}
	rt.Reach("ran")
	rt.Assert(done == 2, "C17: all concurrent Transact calls return")
	if done != 2 {
		return
	}
	got, wellFormed := e.dbState()
	rt.Assert(wellFormed, "C17: the database holds only rows some transaction wrote")
	// the six interleavings of (a0 a1) and (b0 b1) that keep each client's order
	orders := [][4][2]int{
		{{0, 0}, {0, 1}, {1, 0}, {1, 1}}, {{0, 0}, {1, 0}, {0, 1}, {1, 1}}, {{0, 0}, {1, 0}, {1, 1}, {0, 1}},
		{{1, 0}, {0, 0}, {0, 1}, {1, 1}}, {{1, 0}, {0, 0}, {1, 1}, {0, 1}}, {{1, 0}, {1, 1}, {0, 0}, {0, 1}}}
	match := false
	for _, o := range orders {
		s := c17State{has: true, num: n0}
		good := true
		for _, ij := range o {
			var r bool
			s, r = s.apply(k[ij[0]][ij[1]], v[ij[0]][ij[1]])
			if r != ok[ij[0]][ij[1]] {
				good = false
			}
		}
		if good && c17Same(got, s) {
			match = true
		}
	}
	rt.Assert(match, "C17: results and final contents are those of running the transactions one after the other in an order that keeps each client's own order")
	for _, n := range e.notes {
		var tu ovsdb.TableUpdates2
		rt.Assert(json.Unmarshal(n, &tu) == nil && e.rep.Populate2(tu) == nil, "C17: notifications apply in the order received")
	}
	rt.Assert(e.mirrors(), "C17: a monitor that applies its notifications in the order received ends with the database contents")
}

// VerifC17MonitorDuring: while one client's transaction runs, another connection registers a monitor (the monitor
// handlers read the database without the transaction lock): the transaction's outcome must be the one it has alone,
// and the monitor's initial contents must be a committed state.
func VerifC17MonitorDuring() {
	e := newC17Env()
	e.seed(5)
	res, err := e.transact(0, c17Op(1, 20)...)
	rt.Assert(!c17Failed(res, err), "C17: the first contended insert is accepted")
	kind := []int{0, 1, 2, 4}[rt.Choose(4)]
	var ok bool
	done := 0
	var initial ovsdb.TableUpdates2
	go func() {
		res, err := e.transact(1, c17Op(kind, 30)...)
		ok = !c17Failed(res, err)
		done++
	}()
	go func() {
		req := map[string]*ovsdb.MonitorRequest{"Root": {}}
		merr := e.srv.MonitorCond(e.mon, []json.RawMessage{c17Raw("V"), c17Raw("late"), c17Raw(req)}, &initial)
		rt.Assert(merr == nil, "C17: the monitor is accepted")
		done++
	}()
	for tries := 0; done < 2 && tries < 200; tries++ {
		rt.RunPending()
	}
	rt.Reach("ran")
	rt.Assert(done == 2, "C17: both calls return")
	if done != 2 {
		return
	}
	start := c17State{has: true, num: 5, contended: []int{20}}
	want, wantOK := start.apply(kind, 30)
	got, wellFormed := e.dbState()
	rt.Assert(wellFormed && ok == wantOK && c17Same(got, want), "C17: a transaction has the outcome it has alone when a monitor is registered while it runs")
	n := len(initial["Root"])
	rt.Assert(n == 2, "C17: the initial contents of a monitor registered during a transaction are a committed state")
}
