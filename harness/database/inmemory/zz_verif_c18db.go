package inmemory

// C18, server side: every method of the in-memory database returns with the database lock released, whatever
// database / table / row it is asked about (known or unknown), so that the next writer is not blocked.

import (
	"github.com/google/uuid"
	"github.com/ovn-org/libovsdb/model"
	"github.com/ovn-org/libovsdb/ovsdb"
	rt "github.com/ovn-org/libovsdb/verifrt"
	"github.com/ovn-org/libovsdb/zzverif/fix"
)

func c18dbFree(db *inMemoryDatabase) bool {
	if db.mutex.TryLock() {
		db.mutex.Unlock()
		return rt.HeldLocks() == 0
	}
	return false
}

func c18dbCall(db *inMemoryDatabase, which int, dbName, table, row string) {
	switch which {
	case 0:
		db.Exists(dbName)
	case 1:
		db.List(dbName, table)
	case 2:
		db.List(dbName, table, ovsdb.NewCondition("_uuid", ovsdb.ConditionEqual, ovsdb.UUID{GoUUID: row}))
	case 3:
		db.Get(dbName, table, row)
	case 4:
		db.GetReferences(dbName, table, row)
	case 5:
		db.CheckIndexes(dbName, table, &fix.Root4{UUID: row})
	case 6:
		db.Commit(dbName, uuid.New(), nil)
	case 7:
		db.CreateDatabase(dbName, fix.MustSchema(fix.SchemaS4))
	default:
		db.NewTransaction(dbName)
	}
}

// VerifC18Database: two database calls in a row, each on a known or unknown database, table and row.
func VerifC18Database() {
	d := NewDatabase(map[string]model.ClientDBModel{"V": fix.ClientModelS4()})
	db := d.(*inMemoryDatabase)
	if rt.Bool() {
		if err := db.CreateDatabase("V", fix.MustSchema(fix.SchemaS4)); err != nil {
			panic(err)
		}
	}
	names := []string{"V", "nosuchdb"}
	tables := []string{"Root", "Child", "nosuchtable"}
	rows := []string{fix.U1, fix.Dangling}
	for i := 0; i < 2; i++ {
		which := rt.Choose(9)
		dbName := names[rt.Choose(2)]
		table := tables[rt.Choose(3)]
		row := rows[rt.Choose(2)]
		func() {
			defer func() {
				// a panic on a request the database cannot serve is C19's subject; the lock is this check's
				recover()
			}()
			c18dbCall(db, which, dbName, table, row)
		}()
		rt.Assert(c18dbFree(db), "C18: a database call returns with the database lock released")
	}
	rt.Reach("ran")
}
