// Package verifrt is the harness API of the /verif symbolic executor.
//
// Inside the executor every function here is intercepted (its body is never interpreted). Compiled natively
// (through `go test -overlay`), the same functions replay one concrete path: nondeterministic values are read,
// in call order, from the JSON file named by $VERIF_REPLAY.
package verifrt

import (
	"bytes"
	"math/rand"
	"net"

	"encoding/json"
	"fmt"
	"github.com/cenkalti/rpc2"
	"github.com/cenkalti/rpc2/jsonrpc"
	"math"
	"os"
	"reflect"
	"regexp"
	"runtime"
	"strconv"
	"sync"
	"time"
	"unsafe"
)

type rec struct {
	Kind string      `json:"kind"`
	Val  interface{} `json:"val"`
	N    int         `json:"n"`
}

type replayFile struct {
	Harness string `json:"harness"`
	Nondet  []rec  `json:"nondet"`
}

var (
	mu       sync.Mutex
	loaded   bool
	recs     []rec
	pos      int
	Failures []string
	Reached  []string
	Observed []string
	expectP  bool
)

func load() {
	if loaded {
		return
	}
	loaded = true
	path := os.Getenv("VERIF_REPLAY")
	if path == "" {
		return
	}
	data, err := os.ReadFile(path)
	if err != nil {
		panic("verifrt: " + err.Error())
	}
	var rf replayFile
	dec := json.NewDecoder(bytes.NewReader(data))
	dec.UseNumber() // 64-bit integers must not go through float64
	if err := dec.Decode(&rf); err != nil {
		panic("verifrt: " + err.Error())
	}
	recs = rf.Nondet
}

// Reset restarts consumption of the replay file (native only).
func Reset() {
	mu.Lock()
	defer mu.Unlock()
	pos = 0
	Failures, Reached, Observed = nil, nil, nil
	expectP = false
	rpcCalls = 0
}

func next(kind string) rec {
	mu.Lock()
	defer mu.Unlock()
	load()
	if pos >= len(recs) {
		if len(Failures) > 0 {
			// the executor ends a path at its first failed assertion; natively the harness runs on: feed it zeros
			return rec{Kind: kind, Val: zeroOf(kind)}
		}
		panic(fmt.Sprintf("verifrt: replay exhausted at %d (want %s)", pos, kind))
	}
	r := recs[pos]
	pos++
	if r.Kind != kind && !(kind == "int" && r.Kind == "int64") && !(kind == "int64" && r.Kind == "int") {
		panic(fmt.Sprintf("verifrt: replay divergence at %d: recorded %s, harness asks %s", pos-1, r.Kind, kind))
	}
	return r
}

func zeroOf(kind string) interface{} {
	switch kind {
	case "bool":
		return false
	case "string", "uuid", "json":
		return ""
	}
	return json.Number("0")
}

func asInt64(v interface{}) int64 {
	switch x := v.(type) {
	case float64:
		return int64(x)
	case string:
		i, _ := strconv.ParseInt(x, 10, 64)
		return i
	case json.Number:
		i, _ := x.Int64()
		return i
	}
	return 0
}

// Int returns an arbitrary int.
func Int() int { return int(asInt64(next("int").Val)) }

// Int64 returns an arbitrary int64.
func Int64() int64 { return asInt64(next("int64").Val) }

// Bool returns an arbitrary bool.
func Bool() bool { b, _ := next("bool").Val.(bool); return b }

// Float64 returns an arbitrary finite float64.
func Float64() float64 {
	s, _ := next("float64").Val.(string)
	u, _ := strconv.ParseUint(s, 16, 64)
	return math.Float64frombits(u)
}

// String returns an arbitrary string.
func String() string { s, _ := next("string").Val.(string); return s }

// UUID returns an arbitrary string that is a valid UUID.
func UUID() string { s, _ := next("uuid").Val.(string); return s }

// Choose returns an arbitrary integer in [0,n): a shape decision, concrete on every path.
func Choose(n int) int { return int(asInt64(next("choose").Val)) }

// Assume restricts the path to cond.
func Assume(cond bool) {
	if !cond {
		panic("verifrt: assumption violated during replay")
	}
}

// Assert states the property.
func Assert(cond bool, msg string) {
	if !cond {
		mu.Lock()
		Failures = append(Failures, msg)
		mu.Unlock()
		fmt.Println("VERIF-ASSERT-FAILED: " + msg)
	}
}

// Reach marks a reachability witness.
func Reach(label string) {
	mu.Lock()
	Reached = append(Reached, label)
	mu.Unlock()
}

// Observe records a value for executor-vs-native comparison.
func Observe(tag string, v interface{}) {
	mu.Lock()
	Observed = append(Observed, fmt.Sprintf("%s=%v", tag, v))
	mu.Unlock()
}

// ExpectPanic declares that a panic on this path is not a violation.
func ExpectPanic() { expectP = true }

// Symbolic reports whether the code runs inside the executor.
func Symbolic() bool { return false }

// RunPending lets the other goroutines run until they block (executor: the cooperative scheduler runs every
// logical thread until none can progress; natively: a short sleep).
func RunPending() { time.Sleep(40 * time.Millisecond) }

// HeldLocks returns the number of sync locks currently held by the logical thread (executor only; 0 natively).
func HeldLocks() int { return 0 }

// Yield is a preemption point: symbolically, whether another runnable logical thread runs first is a decision;
// natively the goroutine sleeps for a short random time so that repeated replays visit different schedules.
func Yield() { time.Sleep(time.Duration(rand.Intn(300)) * time.Microsecond) }

// HeldLockSites names where the currently held locks were taken (executor only).
func HeldLockSites() string { return "" }

var uuidRe = regexp.MustCompile(`^[a-fA-F0-9]{8}-[a-fA-F0-9]{4}-[a-fA-F0-9]{4}-[a-fA-F0-9]{4}-[a-fA-F0-9]{12}$`)

// IsUUID reports whether s is a valid UUID string.
func IsUUID(s string) bool { return uuidRe.MatchString(s) }

// Shares reports whether a and b reach a common mutable heap cell (pointer target, slice element or map).
func Shares(a, b interface{}) bool {
	cells := map[uintptr]bool{}
	seen := map[uintptr]bool{}
	var walk func(v reflect.Value, mark bool, depth int) bool
	walk = func(v reflect.Value, mark bool, depth int) bool {
		if !v.IsValid() || depth > 50 {
			return false
		}
		hit := func(p uintptr) bool {
			if p == 0 {
				return false
			}
			if mark {
				cells[p] = true
				return false
			}
			return cells[p]
		}
		switch v.Kind() {
		case reflect.Interface:
			return walk(v.Elem(), mark, depth+1)
		case reflect.Ptr:
			if v.IsNil() {
				return false
			}
			if hit(v.Pointer()) {
				return true
			}
			key := v.Pointer()
			if mark {
				if seen[key] {
					return false
				}
				seen[key] = true
			}
			return walk(v.Elem(), mark, depth+1)
		case reflect.Slice:
			if v.IsNil() {
				return false
			}
			full := v
			if v.Cap() > v.Len() {
				full = v.Slice(0, v.Cap())
			}
			for i := 0; i < full.Len(); i++ {
				e := full.Index(i)
				if e.CanAddr() && e.Type().Size() > 0 && hit(uintptr(unsafe.Pointer(e.Addr().UnsafePointer()))) {
					return true
				}
			}
			for i := 0; i < v.Len(); i++ {
				if walk(v.Index(i), mark, depth+1) {
					return true
				}
			}
		case reflect.Map:
			if v.IsNil() {
				return false
			}
			if hit(v.Pointer()) {
				return true
			}
			for _, k := range v.MapKeys() {
				if walk(k, mark, depth+1) || walk(v.MapIndex(k), mark, depth+1) {
					return true
				}
			}
		case reflect.Struct:
			for i := 0; i < v.NumField(); i++ {
				if walk(v.Field(i), mark, depth+1) {
					return true
				}
			}
		case reflect.Array:
			for i := 0; i < v.Len(); i++ {
				if walk(v.Index(i), mark, depth+1) {
					return true
				}
			}
		}
		return false
	}
	walk(reflect.ValueOf(a), true, 0)
	return walk(reflect.ValueOf(b), false, 0)
}

// Run executes a harness natively for replay and reports whether it failed (assertion or unexpected panic).
func Run(name string, f func()) (failed bool, detail string) {
	Reset()
	defer cleanupListeners()
	defer func() {
		if r := recover(); r != nil {
			if expectP {
				return
			}
			failed = true
			detail = fmt.Sprintf("panic: %v", r)
			fmt.Println("VERIF-PANIC: " + detail)
		}
	}()
	f()
	if len(Failures) > 0 {
		return true, "assert: " + Failures[0]
	}
	return false, ""
}

// LazyJSON returns the text of an arbitrary JSON document of nesting depth <= depth and width <= width whose
// object keys come from the comma-separated menu (plus one other key). In the executor the shape is decided
// lazily, when the code under test first looks at a part of it.
func LazyJSON(depth, width int, keyMenu string) []byte {
	s, _ := next("json").Val.(string)
	return []byte(s)
}

// Note prints a diagnostic natively (never compared with the executor; ignored there).
func Note(tag string, v interface{}) { fmt.Printf("VERIF-NOTE: %s=%v\n", tag, v) }

// RPCPeer answers calls made through a client created by NewRPCClient: it receives the method name and the
// JSON-encoded positional arguments and returns the reply value (encoded to JSON for the caller) or an error.
type RPCPeer func(method string, args []json.RawMessage) (interface{}, error)

var rpcMethods = []string{"update", "update2", "update3", "transact", "monitor", "monitor_cond", "monitor_cond_since",
	"monitor_cancel", "get_schema", "list_dbs", "echo", "lock", "steal", "unlock"}

var rpcCalls int

// NewRPCClient returns an rpc2 client whose calls are answered by peer. In the executor the call is made
// synchronously on JSON trees; natively a real rpc2 client talks to a real rpc2 server over net.Pipe.
func NewRPCClient(peer RPCPeer) *rpc2.Client {
	c1, c2 := net.Pipe()
	srv := rpc2.NewServer()
	for _, m := range rpcMethods {
		method := m
		srv.Handle(method, func(_ *rpc2.Client, args []json.RawMessage, reply *interface{}) error {
			mu.Lock()
			rpcCalls++
			mu.Unlock()
			r, err := peer(method, args)
			if err != nil {
				return err
			}
			*reply = r
			return nil
		})
	}
	go srv.ServeCodec(jsonrpc.NewJSONCodec(c2))
	client := rpc2.NewClientWithCodec(jsonrpc.NewJSONCodec(c1))
	client.SetBlocking(true)
	go client.Run()
	return client
}

// RPCCalls returns the number of calls answered by peers so far.
func RPCCalls() int { mu.Lock(); defer mu.Unlock(); return rpcCalls }

// DialPeer answers the calls a connection made to a Listen endpoint carries: conn is the handle through which the
// peer can call back into the connected client (notifications).
type DialPeer func(conn *rpc2.Client, method string, args []json.RawMessage) (interface{}, error)

type nativeListener struct {
	mu    sync.Mutex
	dir   string
	path  string
	ln    net.Listener
	peer  DialPeer
	conns []net.Conn
}

var listeners = map[string]*nativeListener{}

func (l *nativeListener) start() {
	ln, err := net.Listen("unix", l.path)
	if err != nil {
		panic("verifrt: " + err.Error())
	}
	l.mu.Lock()
	l.ln = ln
	l.mu.Unlock()
	go func() {
		for {
			c, err := ln.Accept()
			if err != nil {
				return
			}
			l.mu.Lock()
			l.conns = append(l.conns, c)
			l.mu.Unlock()
			srv := rpc2.NewServer()
			for _, m := range rpcMethods {
				method := m
				srv.Handle(method, func(client *rpc2.Client, args []json.RawMessage, reply *interface{}) error {
					mu.Lock()
					rpcCalls++
					mu.Unlock()
					r, err := l.peer(client, method, args)
					if err != nil {
						return err
					}
					*reply = r
					return nil
				})
			}
			go srv.ServeCodec(jsonrpc.NewJSONCodec(c))
		}
	}()
}

// Listen makes an endpoint ("unix:<path>") a client under test can connect to; every call arriving on a
// connection is answered by peer. In the executor the dial, the codec and the rpc2 client are stubbed and calls
// travel synchronously as JSON trees; natively a real unix socket served by a real rpc2 server is used.
func Listen(peer DialPeer) string {
	dir, err := os.MkdirTemp("", "verifsock")
	if err != nil {
		panic("verifrt: " + err.Error())
	}
	l := &nativeListener{dir: dir, path: dir + "/s.sock", peer: peer}
	l.start()
	ep := "unix:" + l.path
	mu.Lock()
	listeners[ep] = l
	mu.Unlock()
	return ep
}

// SetListening stops (new connections are refused) or restarts an endpoint.
func SetListening(endpoint string, on bool) {
	mu.Lock()
	l := listeners[endpoint]
	mu.Unlock()
	if l == nil {
		return
	}
	l.mu.Lock()
	ln := l.ln
	l.mu.Unlock()
	if !on && ln != nil {
		ln.Close()
		os.Remove(l.path)
		l.mu.Lock()
		l.ln = nil
		l.mu.Unlock()
	}
	if on && ln == nil {
		l.start()
	}
}

// CutConnections closes every connection accepted so far (the listeners stay as they are).
func CutConnections() {
	mu.Lock()
	ls := make([]*nativeListener, 0, len(listeners))
	for _, l := range listeners {
		ls = append(ls, l)
	}
	mu.Unlock()
	for _, l := range ls {
		l.mu.Lock()
		for _, c := range l.conns {
			c.Close()
		}
		l.conns = nil
		l.mu.Unlock()
	}
	time.Sleep(20 * time.Millisecond)
}

func cleanupListeners() {
	mu.Lock()
	defer mu.Unlock()
	for ep, l := range listeners {
		if l.ln != nil {
			l.ln.Close()
		}
		for _, c := range l.conns {
			c.Close()
		}
		os.RemoveAll(l.dir)
		delete(listeners, ep)
	}
}

// RWMutex stands in for sync.RWMutex in the *native* confirmation of a "recursive read lock" report: the replay
// builds the package under test with sync.RWMutex textually replaced by this type. It behaves like sync.RWMutex and
// records a failure when a goroutine takes a read lock it already holds (prohibited by sync.RWMutex: it deadlocks as
// soon as a writer asks for the lock in between). The executor never sees this type.
type RWMutex struct {
	inner   sync.RWMutex
	rmu     sync.Mutex
	readers map[int64]int
}

func goid() int64 {
	var buf [64]byte
	n := runtime.Stack(buf[:], false)
	f := bytes.Fields(buf[:n])
	if len(f) < 2 {
		return -1
	}
	id, _ := strconv.ParseInt(string(f[1]), 10, 64)
	return id
}

func (m *RWMutex) RLock() {
	g := goid()
	m.rmu.Lock()
	if m.readers == nil {
		m.readers = map[int64]int{}
	}
	again := m.readers[g] > 0
	m.readers[g]++
	m.rmu.Unlock()
	if again {
		Assert(false, "recursive read lock: goroutine re-acquires a sync.RWMutex it already holds for reading")
	}
	m.inner.RLock()
}

func (m *RWMutex) RUnlock() {
	g := goid()
	m.rmu.Lock()
	if m.readers[g] > 0 {
		m.readers[g]--
	}
	m.rmu.Unlock()
	m.inner.RUnlock()
}

func (m *RWMutex) Lock()         { m.inner.Lock() }
func (m *RWMutex) Unlock()       { m.inner.Unlock() }
func (m *RWMutex) TryLock() bool { return m.inner.TryLock() }
func (m *RWMutex) TryRLock() bool {
	if !m.inner.TryRLock() {
		return false
	}
	g := goid()
	m.rmu.Lock()
	if m.readers == nil {
		m.readers = map[int64]int{}
	}
	m.readers[g]++
	m.rmu.Unlock()
	return true
}
func (m *RWMutex) RLocker() sync.Locker { return (*rlocker)(m) }

type rlocker RWMutex

func (r *rlocker) Lock()   { (*RWMutex)(r).RLock() }
func (r *rlocker) Unlock() { (*RWMutex)(r).RUnlock() }
