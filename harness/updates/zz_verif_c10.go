package updates

import (
	rt "github.com/ovn-org/libovsdb/verifrt"
)

// ---- helpers (plain Go, interpreted like the code under test) ----

func vStrSet(n int, nilWhenEmpty bool) []string {
	if n == 0 {
		if nilWhenEmpty {
			return nil
		}
		return []string{}
	}
	s := make([]string, n)
	for i := range s {
		s[i] = rt.String()
	}
	for i := 0; i < n; i++ {
		for j := i + 1; j < n; j++ {
			rt.Assume(s[i] != s[j])
		}
	}
	return s
}

func vIntSet(n int, nilWhenEmpty bool) []int {
	if n == 0 {
		if nilWhenEmpty {
			return nil
		}
		return []int{}
	}
	s := make([]int, n)
	for i := range s {
		s[i] = rt.Int()
	}
	for i := 0; i < n; i++ {
		for j := i + 1; j < n; j++ {
			rt.Assume(s[i] != s[j])
		}
	}
	return s
}

func vCloneStrs(a []string) []string {
	if a == nil {
		return nil
	}
	r := make([]string, len(a))
	copy(r, a)
	return r
}

func vCloneInts(a []int) []int {
	if a == nil {
		return nil
	}
	r := make([]int, len(a))
	copy(r, a)
	return r
}

func vStrIn(x string, s []string) bool {
	for _, y := range s {
		if x == y {
			return true
		}
	}
	return false
}

func vIntIn(x int, s []int) bool {
	for _, y := range s {
		if x == y {
			return true
		}
	}
	return false
}

func vStrSetEq(a, b []string) bool {
	if len(a) != len(b) {
		return false
	}
	for _, x := range a {
		if !vStrIn(x, b) {
			return false
		}
	}
	return true
}

func vIntSetEq(a, b []int) bool {
	if len(a) != len(b) {
		return false
	}
	for _, x := range a {
		if !vIntIn(x, b) {
			return false
		}
	}
	return true
}

func vStrNoDup(a []string) bool {
	for i := range a {
		for j := i + 1; j < len(a); j++ {
			if a[i] == a[j] {
				return false
			}
		}
	}
	return true
}

// VerifC10SetString: difference/applyDifference on set<string>, sizes 0..N each side, nil and empty.
func verifC10SetString(max int) {
	na, nb := rt.Choose(max+1), rt.Choose(max+1)
	a := vStrSet(na, rt.Choose(2) == 0)
	b := vStrSet(nb, rt.Choose(2) == 0)
	a0 := vCloneStrs(a)
	b0 := vCloneStrs(b)
	d, changed := difference(a, b) // real code; rewrites a in place by contract
	rt.Reach("post-diff")
	rt.Assert(changed == !vStrSetEq(a0, b0), "C10 set<string>: changed flag iff sets differ")
	ds, _ := d.([]string)
	rt.Assert(changed == (len(ds) > 0), "C10 set<string>: difference empty iff equal")
	rt.Assert(vStrNoDup(ds), "C10 set<string>: difference has no duplicates")
	// symmetric difference
	for _, x := range ds {
		rt.Assert(vStrIn(x, a0) != vStrIn(x, b0), "C10 set<string>: difference element belongs to exactly one side")
	}
	for _, x := range a0 {
		rt.Assert(vStrIn(x, b0) || vStrIn(x, ds), "C10 set<string>: element only in a is in the difference")
	}
	for _, x := range b0 {
		rt.Assert(vStrIn(x, a0) || vStrIn(x, ds), "C10 set<string>: element only in b is in the difference")
	}
	rt.Assert(vStrSetEq(b, b0) && len(b) == len(b0), "C10 set<string>: b not altered by difference")
	// apply
	var dd interface{} = d
	r, ch2 := applyDifference(vCloneStrs(a0), dd)
	rs, _ := r.([]string)
	rt.Assert(vStrSetEq(rs, b0), "C10 set<string>: apply(a, diff(a,b)) == b as sets")
	rt.Assert(ch2 == changed, "C10 set<string>: apply reports change iff difference non-empty")
	rt.Observe("nd", len(ds))
}

func VerifC10SetString2() { verifC10SetString(2) }
func VerifC10SetString3() { verifC10SetString(3) }

func verifC10SetInt(max int) {
	na, nb := rt.Choose(max+1), rt.Choose(max+1)
	a := vIntSet(na, rt.Choose(2) == 0)
	b := vIntSet(nb, rt.Choose(2) == 0)
	a0 := vCloneInts(a)
	b0 := vCloneInts(b)
	d, changed := difference(a, b)
	rt.Reach("post-diff")
	rt.Assert(changed == !vIntSetEq(a0, b0), "C10 set<int>: changed flag iff sets differ")
	ds, _ := d.([]int)
	rt.Assert(changed == (len(ds) > 0), "C10 set<int>: difference empty iff equal")
	for _, x := range ds {
		rt.Assert(vIntIn(x, a0) != vIntIn(x, b0), "C10 set<int>: difference element belongs to exactly one side")
	}
	for _, x := range a0 {
		rt.Assert(vIntIn(x, b0) || vIntIn(x, ds), "C10 set<int>: element only in a is in the difference")
	}
	for _, x := range b0 {
		rt.Assert(vIntIn(x, a0) || vIntIn(x, ds), "C10 set<int>: element only in b is in the difference")
	}
	r, _ := applyDifference(vCloneInts(a0), d)
	rs, _ := r.([]int)
	rt.Assert(vIntSetEq(rs, b0), "C10 set<int>: apply(a, diff(a,b)) == b as sets")
}

func VerifC10SetInt2() { verifC10SetInt(2) }
func VerifC10SetInt3() { verifC10SetInt(3) }
