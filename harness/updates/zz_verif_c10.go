package updates

import (
	rt "github.com/ovn-org/libovsdb/verifrt"
)

// ---- helpers (plain Go, interpreted like the code under test) ----

func vStrSet(n int, nilWhenEmpty bool) []string {
	if n == 0 {
		if nilWhenEmpty {
			return nil
		}
		return []string{}
	}
	s := make([]string, n)
	for i := range s {
		s[i] = rt.String()
	}
	for i := 0; i < n; i++ {
		for j := i + 1; j < n; j++ {
			rt.Assume(s[i] != s[j])
		}
	}
	return s
}

func vIntSet(n int, nilWhenEmpty bool) []int {
	if n == 0 {
		if nilWhenEmpty {
			return nil
		}
		return []int{}
	}
	s := make([]int, n)
	for i := range s {
		s[i] = rt.Int()
	}
	for i := 0; i < n; i++ {
		for j := i + 1; j < n; j++ {
			rt.Assume(s[i] != s[j])
		}
	}
	return s
}

func vCloneStrs(a []string) []string {
	if a == nil {
		return nil
	}
	r := make([]string, len(a))
	copy(r, a)
	return r
}

func vCloneInts(a []int) []int {
	if a == nil {
		return nil
	}
	r := make([]int, len(a))
	copy(r, a)
	return r
}

func vStrIn(x string, s []string) bool {
	for _, y := range s {
		if x == y {
			return true
		}
	}
	return false
}

func vIntIn(x int, s []int) bool {
	for _, y := range s {
		if x == y {
			return true
		}
	}
	return false
}

func vStrSetEq(a, b []string) bool {
	if len(a) != len(b) {
		return false
	}
	for _, x := range a {
		if !vStrIn(x, b) {
			return false
		}
	}
	return true
}

func vIntSetEq(a, b []int) bool {
	if len(a) != len(b) {
		return false
	}
	for _, x := range a {
		if !vIntIn(x, b) {
			return false
		}
	}
	return true
}

func vStrNoDup(a []string) bool {
	for i := range a {
		for j := i + 1; j < len(a); j++ {
			if a[i] == a[j] {
				return false
			}
		}
	}
	return true
}

// VerifC10SetString: difference/applyDifference on set<string>, sizes 0..N each side, nil and empty.
func verifC10SetString(max int) {
	na, nb := rt.Choose(max+1), rt.Choose(max+1)
	a := vStrSet(na, rt.Choose(2) == 0)
	b := vStrSet(nb, rt.Choose(2) == 0)
	a0 := vCloneStrs(a)
	b0 := vCloneStrs(b)
	d, changed := difference(a, b) // real code; rewrites a in place by contract
	rt.Reach("post-diff")
	rt.Assert(changed == !vStrSetEq(a0, b0), "C10 set<string>: changed flag iff sets differ")
	ds, _ := d.([]string)
	rt.Assert(changed == (len(ds) > 0), "C10 set<string>: difference empty iff equal")
	rt.Assert(vStrNoDup(ds), "C10 set<string>: difference has no duplicates")
	// symmetric difference
	for _, x := range ds {
		rt.Assert(vStrIn(x, a0) != vStrIn(x, b0), "C10 set<string>: difference element belongs to exactly one side")
	}
	for _, x := range a0 {
		rt.Assert(vStrIn(x, b0) || vStrIn(x, ds), "C10 set<string>: element only in a is in the difference")
	}
	for _, x := range b0 {
		rt.Assert(vStrIn(x, a0) || vStrIn(x, ds), "C10 set<string>: element only in b is in the difference")
	}
	rt.Assert(vStrSetEq(b, b0) && len(b) == len(b0), "C10 set<string>: b not altered by difference")
	// apply
	var dd interface{} = d
	r, ch2 := applyDifference(vCloneStrs(a0), dd)
	rs, _ := r.([]string)
	rt.Assert(vStrSetEq(rs, b0), "C10 set<string>: apply(a, diff(a,b)) == b as sets")
	rt.Assert(ch2 == changed, "C10 set<string>: apply reports change iff difference non-empty")
	rt.Observe("nd", len(ds))
}

func VerifC10SetString2() { verifC10SetString(2) }
func VerifC10SetString3() { verifC10SetString(3) }

func verifC10SetInt(max int) {
	na, nb := rt.Choose(max+1), rt.Choose(max+1)
	a := vIntSet(na, rt.Choose(2) == 0)
	b := vIntSet(nb, rt.Choose(2) == 0)
	a0 := vCloneInts(a)
	b0 := vCloneInts(b)
	d, changed := difference(a, b)
	rt.Reach("post-diff")
	rt.Assert(changed == !vIntSetEq(a0, b0), "C10 set<int>: changed flag iff sets differ")
	ds, _ := d.([]int)
	rt.Assert(changed == (len(ds) > 0), "C10 set<int>: difference empty iff equal")
	for _, x := range ds {
		rt.Assert(vIntIn(x, a0) != vIntIn(x, b0), "C10 set<int>: difference element belongs to exactly one side")
	}
	for _, x := range a0 {
		rt.Assert(vIntIn(x, b0) || vIntIn(x, ds), "C10 set<int>: element only in a is in the difference")
	}
	for _, x := range b0 {
		rt.Assert(vIntIn(x, a0) || vIntIn(x, ds), "C10 set<int>: element only in b is in the difference")
	}
	r, _ := applyDifference(vCloneInts(a0), d)
	rs, _ := r.([]int)
	rt.Assert(vIntSetEq(rs, b0), "C10 set<int>: apply(a, diff(a,b)) == b as sets")
}

func VerifC10SetInt2() { verifC10SetInt(2) }
func VerifC10SetInt3() { verifC10SetInt(3) }

// ---- maps ----

type vKV struct{ k, v string }

func vStrMap(n int, nilWhenEmpty bool) (map[string]string, []vKV) {
	if n == 0 {
		if nilWhenEmpty {
			return nil, nil
		}
		return map[string]string{}, nil
	}
	kv := make([]vKV, n)
	for i := range kv {
		kv[i] = vKV{rt.String(), rt.String()}
	}
	for i := 0; i < n; i++ {
		for j := i + 1; j < n; j++ {
			rt.Assume(kv[i].k != kv[j].k)
		}
	}
	m := make(map[string]string, n)
	for _, e := range kv {
		m[e.k] = e.v
	}
	return m, kv
}

func vLookup(kv []vKV, k string) (string, bool) {
	for _, e := range kv {
		if e.k == k {
			return e.v, true
		}
	}
	return "", false
}

func vMapEqList(m map[string]string, kv []vKV) bool {
	if len(m) != len(kv) {
		return false
	}
	for _, e := range kv {
		v, ok := m[e.k]
		if !ok || v != e.v {
			return false
		}
	}
	return true
}

// vRefMapDiff is the update2 difference of two maps (reference, from ovsdb-server(7)).
func vRefMapDiff(a, b []vKV) []vKV {
	var d []vKV
	for _, e := range a {
		if _, ok := vLookup(b, e.k); !ok {
			d = append(d, e)
		}
	}
	for _, e := range b {
		if av, ok := vLookup(a, e.k); !ok || av != e.v {
			d = append(d, e)
		}
	}
	return d
}

// vRefMapApply applies an update2 map difference (reference).
func vRefMapApply(a, d []vKV) []vKV {
	var r []vKV
	for _, e := range a {
		if dv, ok := vLookup(d, e.k); ok {
			if dv == e.v {
				continue // identical pair: removed
			}
			r = append(r, vKV{e.k, dv}) // replaced
		} else {
			r = append(r, e)
		}
	}
	for _, e := range d {
		if _, ok := vLookup(a, e.k); !ok {
			r = append(r, e)
		}
	}
	return r
}

func verifC10MapString(max int) {
	na, nb := rt.Choose(max+1), rt.Choose(max+1)
	a, akv := vStrMap(na, rt.Choose(2) == 0)
	b, bkv := vStrMap(nb, rt.Choose(2) == 0)
	d, changed := difference(a, b) // in place on a
	rt.Reach("post-diff")
	refD := vRefMapDiff(akv, bkv)
	dm, _ := d.(map[string]string)
	rt.Assert(vMapEqList(dm, refD), "C10 map: difference equals the update2 map difference")
	rt.Assert(changed == (len(refD) > 0), "C10 map: changed flag iff maps differ")
	rt.Assert(vMapEqList(b, bkv), "C10 map: b not altered by difference")
	// apply to a fresh copy of a
	a2 := make(map[string]string, len(akv))
	for _, e := range akv {
		a2[e.k] = e.v
	}
	var a2i interface{} = a2
	if na == 0 {
		a2i = map[string]string(nil)
	}
	r, _ := applyDifference(a2i, d)
	rm, _ := r.(map[string]string)
	rt.Assert(vMapEqList(rm, bkv), "C10 map: apply(a, diff(a,b)) == b")
}

func VerifC10MapString1() { verifC10MapString(1) }
func VerifC10MapString2() { verifC10MapString(2) }

// VerifC10MapPeer: applying an arbitrary peer-supplied difference follows the update2 rules.
func verifC10MapPeer(max int) {
	na, nd := rt.Choose(max+1), 1+rt.Choose(max)
	a, akv := vStrMap(na, rt.Choose(2) == 0)
	d, dkv := vStrMap(nd, false)
	var ai interface{} = a
	r, changed := applyDifference(ai, d)
	rt.Reach("post-apply")
	ref := vRefMapApply(akv, dkv)
	rm, _ := r.(map[string]string)
	rt.Assert(vMapEqList(rm, ref), "C10 map peer: add / replace / remove-identical rule")
	rt.Assert(changed, "C10 map peer: a non-empty difference always changes a map")
	rt.Assert(vMapEqList(d, dkv), "C10 map peer: the difference itself is not altered")
}

func VerifC10MapPeer2() { verifC10MapPeer(2) }

// VerifC10SetPeer: applying an arbitrary peer-supplied set difference toggles membership.
func VerifC10SetPeer2() {
	na, nd := rt.Choose(3), 1+rt.Choose(2)
	a := vStrSet(na, rt.Choose(2) == 0)
	d := vStrSet(nd, false)
	a0, d0 := vCloneStrs(a), vCloneStrs(d)
	r, changed := applyDifference(a, d)
	rt.Reach("post-apply")
	rs, _ := r.([]string)
	for _, x := range a0 {
		rt.Assert(vStrIn(x, rs) == !vStrIn(x, d0), "C10 set peer: element of a stays iff not toggled")
	}
	for _, x := range d0 {
		rt.Assert(vStrIn(x, rs) == !vStrIn(x, a0), "C10 set peer: element of d is added iff absent")
	}
	for _, x := range rs {
		rt.Assert(vStrIn(x, a0) || vStrIn(x, d0), "C10 set peer: nothing else appears")
	}
	rt.Assert(vStrNoDup(rs), "C10 set peer: result has no duplicates")
	rt.Assert(changed, "C10 set peer: a non-empty difference always changes a set")
	rt.Assert(vStrSetEq(d, d0), "C10 set peer: the difference itself is not altered")
}

// ---- atoms and optionals ----

func VerifC10Atoms() {
	switch rt.Choose(6) {
	case 0:
		a, b := rt.Int(), rt.Int()
		d, changed := difference(a, b)
		rt.Reach("post")
		rt.Assert(changed == (a != b), "C10 int: changed iff different")
		r, _ := applyDifference(a, d)
		rt.Assert(r.(int) == b, "C10 int: apply(a,diff) == b")
	case 1:
		a, b := rt.String(), rt.String()
		d, changed := difference(a, b)
		rt.Reach("post")
		rt.Assert(changed == (a != b), "C10 string: changed iff different")
		r, _ := applyDifference(a, d)
		rt.Assert(r.(string) == b, "C10 string: apply(a,diff) == b")
	case 2:
		a, b := rt.Float64(), rt.Float64()
		d, changed := difference(a, b)
		rt.Reach("post")
		rt.Assert(changed == (a != b), "C10 real: changed iff different")
		r, _ := applyDifference(a, d)
		rt.Assert(r.(float64) == b, "C10 real: apply(a,diff) == b")
	case 3:
		a, b := rt.Bool(), rt.Bool()
		d, changed := difference(a, b)
		rt.Reach("post")
		rt.Assert(changed == (a != b), "C10 bool: changed iff different")
		r, _ := applyDifference(a, d)
		rt.Assert(r.(bool) == b, "C10 bool: apply(a,diff) == b")
	case 4:
		var a, b *string
		if rt.Choose(2) == 1 {
			s := rt.String()
			a = &s
		}
		if rt.Choose(2) == 1 {
			s := rt.String()
			b = &s
		}
		d, changed := difference(a, b)
		rt.Reach("post")
		same := (a == nil && b == nil) || (a != nil && b != nil && *a == *b)
		rt.Assert(changed == !same, "C10 optional string: changed iff different")
		r, _ := applyDifference(a, d)
		rp, _ := r.(*string)
		rt.Assert((rp == nil && b == nil) || (rp != nil && b != nil && *rp == *b), "C10 optional string: apply(a,diff) == b")
	case 5:
		var a, b *int
		if rt.Choose(2) == 1 {
			s := rt.Int()
			a = &s
		}
		if rt.Choose(2) == 1 {
			s := rt.Int()
			b = &s
		}
		d, changed := difference(a, b)
		rt.Reach("post")
		same := (a == nil && b == nil) || (a != nil && b != nil && *a == *b)
		rt.Assert(changed == !same, "C10 optional int: changed iff different")
		r, _ := applyDifference(a, d)
		rp, _ := r.(*int)
		rt.Assert((rp == nil && b == nil) || (rp != nil && b != nil && *rp == *b), "C10 optional int: apply(a,diff) == b")
	}
}
