package updates

import (
	"github.com/ovn-org/libovsdb/model"
	"github.com/ovn-org/libovsdb/ovsdb"
	rt "github.com/ovn-org/libovsdb/verifrt"
	"github.com/ovn-org/libovsdb/zzverif/fix"
)

func vOptStr() *string {
	if rt.Choose(2) == 0 {
		return nil
	}
	s := rt.String()
	return &s
}

func vOptEq(a, b *string) bool {
	return (a == nil && b == nil) || (a != nil && b != nil && *a == *b)
}

func vMapEq(a, b map[string]string) bool {
	if len(a) != len(b) {
		return false
	}
	for k, v := range a {
		w, ok := b[k]
		if !ok || w != v {
			return false
		}
	}
	return true
}

func vCloneMap(a map[string]string) map[string]string {
	if a == nil {
		return nil
	}
	r := make(map[string]string, len(a))
	for k, v := range a {
		r[k] = v
	}
	return r
}

// vSymRoot returns a Root whose chosen column holds symbolic content (others fixed).
func vSymRoot(col int, max int) *fix.Root {
	r := &fix.Root{UUID: fix.U1, Name: "r1", Mode: "a"}
	switch col {
	case 0:
		r.Num = rt.Int()
	case 1:
		r.Name = rt.String()
	case 2:
		r.Ratio = rt.Float64()
	case 3:
		r.Flag = rt.Bool()
	case 4:
		r.Tag = vOptStr()
	case 5:
		r.Labels = vStrSet(rt.Choose(max+1), rt.Choose(2) == 0)
	case 6:
		r.Conf, _ = vStrMap(rt.Choose(max+1), rt.Choose(2) == 0)
	}
	return r
}

func vColName(col int) string {
	return [...]string{"num", "name", "ratio", "flag", "tag", "labels", "conf"}[col]
}

// vOvsValue builds the <value> an update operation carries for the column, returning also the native target.
func vOvsValue(col int, max int, target *fix.Root) interface{} {
	switch col {
	case 0:
		target.Num = rt.Int()
		return target.Num
	case 1:
		target.Name = rt.String()
		return target.Name
	case 2:
		target.Ratio = rt.Float64()
		return target.Ratio
	case 3:
		target.Flag = rt.Bool()
		return target.Flag
	case 4:
		target.Tag = vOptStr()
		if target.Tag == nil {
			return ovsdb.OvsSet{GoSet: []interface{}{}}
		}
		if rt.Choose(2) == 0 {
			return *target.Tag // a one-element set may be written as the atom
		}
		return ovsdb.OvsSet{GoSet: []interface{}{*target.Tag}}
	case 5:
		target.Labels = vStrSet(rt.Choose(max+1), false)
		gs := make([]interface{}, len(target.Labels))
		for i, s := range target.Labels {
			gs[i] = s
		}
		return ovsdb.OvsSet{GoSet: gs}
	case 6:
		target.Conf, _ = vStrMap(rt.Choose(max+1), false)
		gm := make(map[interface{}]interface{}, len(target.Conf))
		for k, v := range target.Conf {
			gm[k] = v
		}
		return ovsdb.OvsMap{GoMap: gm}
	}
	panic("col")
}

func vColEq(col int, a, b *fix.Root) bool {
	switch col {
	case 0:
		return a.Num == b.Num
	case 1:
		return a.Name == b.Name
	case 2:
		return a.Ratio == b.Ratio
	case 3:
		return a.Flag == b.Flag
	case 4:
		return vOptEq(a.Tag, b.Tag)
	case 5:
		return vStrSetEq(a.Labels, b.Labels)
	case 6:
		return vMapEq(a.Conf, b.Conf)
	}
	panic("col")
}

func vCloneRoot(r *fix.Root) *fix.Root {
	c := *r
	if r.Tag != nil {
		s := *r.Tag
		c.Tag = &s
	}
	c.Labels = vCloneStrs(r.Labels)
	c.Conf = vCloneMap(r.Conf)
	return &c
}

// verifC10WUpdate: update operation on one column -> Modify row; applying that Modify row (as a peer would) to
// the old model gives the new model; the old model is neither altered nor shared.
func verifC10WUpdate(max int) {
	dbm := fix.DBModelS1()
	col := rt.Choose(7)
	old := vSymRoot(col, max)
	snap := vCloneRoot(old)
	want := vCloneRoot(old)
	val := vOvsValue(col, max, want)
	op := &ovsdb.Operation{Op: ovsdb.OperationUpdate, Table: "Root", Row: ovsdb.Row{vColName(col): val}}
	var mu ModelUpdates
	err := mu.AddOperation(dbm, "Root", fix.U1, old, op)
	rt.Reach("post-update")
	rt.Assert(err == nil, "C10w: well-typed update accepted")
	rt.Assert(vColEq(col, old, snap) && old.Name == snap.Name, "C10w: computing the difference does not alter the old model")
	same := vColEq(col, snap, want)
	m := mu.GetModel("Root", fix.U1)
	if same {
		rt.Assert(m == nil, "C10w: difference empty (no update recorded) when values are equal")
		return
	}
	rt.Assert(m != nil, "C10w: difference non-empty when values differ")
	if m == nil {
		return
	}
	nm := m.(*fix.Root)
	rt.Assert(vColEq(col, nm, want), "C10w: new model holds the new value")
	rt.Assert(!rt.Shares(model.Model(old), m), "C10w: new model shares no memory with the old model")
	// peer side: apply the Modify row to a copy of the old model
	var modify *ovsdb.Row
	_ = mu.ForEachRowUpdate("Root", func(uuid string, ru ovsdb.RowUpdate2) error {
		modify = ru.Modify
		return nil
	})
	rt.Assert(modify != nil, "C10w: an update produces a modify row")
	if modify == nil {
		return
	}
	_, has := (*modify)[vColName(col)]
	rt.Assert(has && len(*modify) == 1, "C10w: modify row names exactly the changed column")
	peer := vCloneRoot(snap)
	peerSnap := vCloneRoot(snap)
	var mu2 ModelUpdates
	err = mu2.AddRowUpdate2(dbm, "Root", fix.U1, peer, ovsdb.RowUpdate2{Modify: modify})
	rt.Assert(err == nil, "C10w: peer applies the modify row")
	pm := mu2.GetModel("Root", fix.U1)
	rt.Assert(pm != nil, "C10w: applying a non-empty modify row changes the row")
	if pm == nil {
		return
	}
	rt.Assert(vColEq(col, pm.(*fix.Root), want), "C10w: old + modify difference == new")
	rt.Assert(vColEq(col, peer, peerSnap), "C10w: applying a difference does not alter the model it is applied to")
}

func VerifC10WUpdate1() { verifC10WUpdate(1) }
func VerifC10WUpdate2() { verifC10WUpdate(2) }

// verifC10WUpdateTwo: one update operation naming two columns (a set or map column whose new value may equal the
// current one, and the integer column): the new model holds exactly the requested values, the modify row names
// exactly the columns that changed, and the peer-side application reproduces the new model.
func verifC10WUpdateTwo(max int) {
	dbm := fix.DBModelS1()
	col := 5 + rt.Choose(2)
	old := vSymRoot(col, max)
	old.Num = rt.Int()
	snap := vCloneRoot(old)
	want := vCloneRoot(old)
	val := vOvsValue(col, max, want)
	want.Num = rt.Int()
	op := &ovsdb.Operation{Op: ovsdb.OperationUpdate, Table: "Root", Row: ovsdb.Row{vColName(col): val, "num": want.Num}}
	var mu ModelUpdates
	err := mu.AddOperation(dbm, "Root", fix.U1, old, op)
	rt.Reach("post-update")
	rt.Assert(err == nil, "C10w2: well-typed update accepted")
	rt.Assert(vColEq(col, old, snap) && old.Num == snap.Num, "C10w2: computing the differences does not alter the old model")
	sameCol, sameNum := vColEq(col, snap, want), snap.Num == want.Num
	m := mu.GetModel("Root", fix.U1)
	if sameCol && sameNum {
		rt.Assert(m == nil, "C10w2: no update recorded when nothing changes")
		return
	}
	rt.Assert(m != nil, "C10w2: an update is recorded when a column changes")
	if m == nil {
		return
	}
	nm := m.(*fix.Root)
	rt.Assert(vColEq(col, nm, want) && nm.Num == want.Num, "C10w2: the new model holds the requested value in every named column")
	var modify *ovsdb.Row
	_ = mu.ForEachRowUpdate("Root", func(uuid string, ru ovsdb.RowUpdate2) error {
		modify = ru.Modify
		return nil
	})
	rt.Assert(modify != nil, "C10w2: an update produces a modify row")
	if modify == nil {
		return
	}
	_, hasCol := (*modify)[vColName(col)]
	_, hasNum := (*modify)["num"]
	rt.Assert(hasCol == !sameCol && hasNum == !sameNum, "C10w2: the modify row names exactly the columns that changed")
	peer := vCloneRoot(snap)
	var mu2 ModelUpdates
	rt.Assert(mu2.AddRowUpdate2(dbm, "Root", fix.U1, peer, ovsdb.RowUpdate2{Modify: modify}) == nil, "C10w2: peer applies the modify row")
	pm := mu2.GetModel("Root", fix.U1)
	rt.Assert(pm != nil && vColEq(col, pm.(*fix.Root), want) && pm.(*fix.Root).Num == want.Num, "C10w2: old + modify difference == new")
}

func VerifC10WUpdateTwo2() { verifC10WUpdateTwo(2) }
