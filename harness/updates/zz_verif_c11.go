package updates

import (
	"github.com/ovn-org/libovsdb/model"
	"github.com/ovn-org/libovsdb/ovsdb"
	rt "github.com/ovn-org/libovsdb/verifrt"
	"github.com/ovn-org/libovsdb/zzverif/fix"
)

// reference row (typed; sets as element lists without duplicates, maps as pair lists)
type vRef struct {
	num    int
	tag    *string
	labels []string
	conf   []vKV
}

func vRefOf(r *fix.Root) vRef {
	ref := vRef{num: r.Num, labels: vCloneStrs(r.Labels)}
	if r.Tag != nil {
		s := *r.Tag
		ref.tag = &s
	}
	for k, v := range r.Conf {
		ref.conf = append(ref.conf, vKV{k, v})
	}
	return ref
}

func vRefEqModel(ref vRef, m *fix.Root) bool {
	if ref.num != m.Num || !vOptEq(ref.tag, m.Tag) || !vStrSetEq(ref.labels, m.Labels) {
		return false
	}
	return vMapEqList(m.Conf, ref.conf)
}

func vRefEq(a, b vRef) bool {
	if a.num != b.num || !vOptEq(a.tag, b.tag) || !vStrSetEq(a.labels, b.labels) || len(a.conf) != len(b.conf) {
		return false
	}
	for _, e := range a.conf {
		v, ok := vLookup(b.conf, e.k)
		if !ok || v != e.v {
			return false
		}
	}
	return true
}

func vStrSetOvs(s []string) ovsdb.OvsSet {
	gs := make([]interface{}, len(s))
	for i, x := range s {
		gs[i] = x
	}
	return ovsdb.OvsSet{GoSet: gs}
}

// vOp builds operation `kind` with symbolic arguments and applies its RFC 7047 meaning to ref.
func vOp(kind int, ref *vRef) ovsdb.Operation {
	switch kind {
	case 0:
		v := rt.Int()
		ref.num = v
		return ovsdb.Operation{Op: ovsdb.OperationUpdate, Table: "Root", Row: ovsdb.Row{"num": v}}
	case 1:
		t := vOptStr()
		ref.tag = t
		if t == nil {
			return ovsdb.Operation{Op: ovsdb.OperationUpdate, Table: "Root", Row: ovsdb.Row{"tag": ovsdb.OvsSet{GoSet: []interface{}{}}}}
		}
		return ovsdb.Operation{Op: ovsdb.OperationUpdate, Table: "Root", Row: ovsdb.Row{"tag": ovsdb.OvsSet{GoSet: []interface{}{*t}}}}
	case 2:
		s := vStrSet(rt.Choose(3), false)
		ref.labels = vCloneStrs(s)
		return ovsdb.Operation{Op: ovsdb.OperationUpdate, Table: "Root", Row: ovsdb.Row{"labels": vStrSetOvs(s)}}
	case 3:
		gm := map[interface{}]interface{}{}
		ref.conf = nil
		if rt.Choose(2) == 1 {
			k, v := rt.String(), rt.String()
			gm[k] = v
			ref.conf = []vKV{{k, v}}
		}
		return ovsdb.Operation{Op: ovsdb.OperationUpdate, Table: "Root", Row: ovsdb.Row{"conf": ovsdb.OvsMap{GoMap: gm}}}
	case 4:
		v := rt.Int()
		ref.num += v
		return ovsdb.Operation{Op: ovsdb.OperationMutate, Table: "Root", Mutations: []ovsdb.Mutation{{Column: "num", Mutator: ovsdb.MutateOperationAdd, Value: v}}}
	case 5:
		x := rt.String()
		if !vStrIn(x, ref.labels) {
			ref.labels = append(vCloneStrs(ref.labels), x)
		}
		return ovsdb.Operation{Op: ovsdb.OperationMutate, Table: "Root", Mutations: []ovsdb.Mutation{{Column: "labels", Mutator: ovsdb.MutateOperationInsert, Value: vStrSetOvs([]string{x})}}}
	case 6:
		x := rt.String()
		var keep []string
		for _, y := range ref.labels {
			if y != x {
				keep = append(keep, y)
			}
		}
		ref.labels = keep
		return ovsdb.Operation{Op: ovsdb.OperationMutate, Table: "Root", Mutations: []ovsdb.Mutation{{Column: "labels", Mutator: ovsdb.MutateOperationDelete, Value: vStrSetOvs([]string{x})}}}
	case 7:
		k, v := rt.String(), rt.String()
		if _, ok := vLookup(ref.conf, k); !ok {
			ref.conf = append(append([]vKV(nil), ref.conf...), vKV{k, v})
		}
		return ovsdb.Operation{Op: ovsdb.OperationMutate, Table: "Root", Mutations: []ovsdb.Mutation{{Column: "conf", Mutator: ovsdb.MutateOperationInsert, Value: ovsdb.OvsMap{GoMap: map[interface{}]interface{}{k: v}}}}}
	case 8:
		k := rt.String()
		var keep []vKV
		for _, e := range ref.conf {
			if e.k != k {
				keep = append(keep, e)
			}
		}
		ref.conf = keep
		return ovsdb.Operation{Op: ovsdb.OperationMutate, Table: "Root", Mutations: []ovsdb.Mutation{{Column: "conf", Mutator: ovsdb.MutateOperationDelete, Value: vStrSetOvs([]string{k})}}}
	case 12, 13: // one mutate operation carrying two mutations of the set (12) or of the map (13)
		var muts []ovsdb.Mutation
		for i := 0; i < 2; i++ {
			sub := vOp([]int{5, 6}[rt.Choose(2)]+2*(kind-12), ref)
			muts = append(muts, sub.Mutations...)
		}
		return ovsdb.Operation{Op: ovsdb.OperationMutate, Table: "Root", Mutations: muts}
	case 10: // one update naming two columns: the set (possibly with its current value) and the integer
		ls := vStrSet(rt.Choose(3), false)
		v := rt.Int()
		ref.labels = vCloneStrs(ls)
		ref.num = v
		return ovsdb.Operation{Op: ovsdb.OperationUpdate, Table: "Root", Row: ovsdb.Row{"labels": vStrSetOvs(ls), "num": v}}
	case 11: // one update naming the map (possibly with its current value) and the integer
		gm := map[interface{}]interface{}{}
		ref.conf = nil
		n := rt.Choose(3)
		var kvs []vKV
		for i := 0; i < n; i++ {
			kvs = append(kvs, vKV{rt.String(), rt.String()})
		}
		if n == 2 {
			rt.Assume(kvs[0].k != kvs[1].k)
		}
		for _, e := range kvs {
			gm[e.k] = e.v
		}
		ref.conf = kvs
		v := rt.Int()
		ref.num = v
		return ovsdb.Operation{Op: ovsdb.OperationUpdate, Table: "Root", Row: ovsdb.Row{"conf": ovsdb.OvsMap{GoMap: gm}, "num": v}}
	default:
		return ovsdb.Operation{Op: ovsdb.OperationDelete, Table: "Root"}
	}
}

const vNumOps = 12

func vSymRootMulti(max int) *fix.Root {
	r := &fix.Root{UUID: fix.U1, Name: "r1", Mode: "a"}
	r.Num = rt.Int()
	r.Tag = vOptStr()
	r.Labels = vStrSet(rt.Choose(max+1), rt.Choose(2) == 0)
	r.Conf, _ = vStrMap(rt.Choose(max+1), rt.Choose(2) == 0)
	return r
}

// verifC11: k operations on one row, accumulated exactly as Transaction.Transact does, versus the net update.
func verifC11(k, max int, opMenu []int) {
	dbm := fix.DBModelS1()
	startAbsent := rt.Choose(2) == 0
	var cur model.Model
	var m0 *fix.Root
	var ref, ref0 vRef
	alive := false
	acc := ModelUpdates{}
	if startAbsent {
		// first operation is the insert
		row := ovsdb.Row{"name": "r1", "mode": "a"}
		n := rt.Int()
		row["num"] = n
		ref = vRef{num: n}
		if rt.Choose(2) == 1 {
			s := rt.String()
			row["labels"] = vStrSetOvs([]string{s})
			ref.labels = []string{s}
		}
		op := ovsdb.Operation{Op: ovsdb.OperationInsert, Table: "Root", UUID: fix.U1, Row: row}
		u := ModelUpdates{}
		err := u.AddOperation(dbm, "Root", fix.U1, nil, &op)
		rt.Assert(err == nil, "C11: insert accepted")
		rt.Assert(acc.Merge(dbm, u) == nil, "C11: merge of an insert accepted")
		cur = u.GetModel("Root", fix.U1)
		alive = true
	} else {
		m0 = vSymRootMulti(max)
		ref0 = vRefOf(m0)
		ref = vRefOf(m0)
		cur = m0
		alive = true
	}
	snap := vRef{}
	if m0 != nil {
		snap = vRefOf(m0)
	}
	for i := 0; i < k && alive; i++ {
		kind := opMenu[rt.Choose(len(opMenu))]
		op := vOp(kind, &ref)
		u := ModelUpdates{}
		err := u.AddOperation(dbm, "Root", fix.U1, cur, &op)
		rt.Assert(err == nil, "C11: well-typed operation accepted")
		rt.Assert(acc.Merge(dbm, u) == nil, "C11: merge accepted")
		if op.Op == ovsdb.OperationDelete {
			alive = false
			cur = nil
		} else if nm := u.GetModel("Root", fix.U1); nm != nil {
			cur = nm
		}
	}
	rt.Reach("accumulated")
	// read the accumulated update
	var old, new model.Model
	var ru2 *ovsdb.RowUpdate2
	n := 0
	_ = acc.ForEachModelUpdate("Root", func(uuid string, o, nw model.Model) error {
		old, new = o, nw
		n++
		return nil
	})
	_ = acc.ForEachRowUpdate("Root", func(uuid string, r ovsdb.RowUpdate2) error {
		ru2 = &r
		return nil
	})
	rt.Assert(n <= 1, "C11: one accumulated update per row")
	switch {
	case startAbsent && !alive:
		rt.Assert(n == 0, "C11: insert followed by delete leaves no update")
	case startAbsent:
		rt.Assert(n == 1 && old == nil && new != nil, "C11: insert followed by changes is one insert")
		if n == 1 && new != nil {
			rt.Assert(vRefEqModel(ref, new.(*fix.Root)), "C11: the accumulated insert carries the final row")
			rt.Assert(ru2 != nil && ru2.Insert != nil && ru2.Modify == nil && ru2.Delete == nil, "C11: insert followed by changes is reported as an insert")
			if ru2 != nil && ru2.Insert != nil {
				// the insert row, read back through the mapper, is the final row
				back := &fix.Root{}
				info, _ := dbm.NewModelInfo(back)
				rt.Assert(dbm.Mapper.GetRowData(ru2.Insert, info) == nil, "C11: accumulated insert row is well-formed")
				rt.Assert(vRefEqModel(ref, back), "C11: the reported insert row is the final row")
			}
		}
	case !alive:
		rt.Assert(n == 1 && new == nil && old != nil, "C11: any change followed by delete is one delete")
		if n == 1 && old != nil {
			rt.Assert(vRefEqModel(ref0, old.(*fix.Root)), "C11: the delete reports the original row")
			rt.Assert(ru2 != nil && ru2.Delete != nil && ru2.Insert == nil && ru2.Modify == nil, "C11: change followed by delete is reported as a delete")
		}
	default:
		if vRefEq(ref0, ref) {
			rt.Assert(n == 0, "C11: the update disappears when the row ends as it began")
		} else {
			rt.Assert(n == 1, "C11: a net change is reported")
			if n == 1 {
				rt.Assert(old != nil && vRefEqModel(ref0, old.(*fix.Root)), "C11: accumulated old is the first old value")
				rt.Assert(new != nil && vRefEqModel(ref, new.(*fix.Root)), "C11: accumulated new is the last new value")
				rt.Assert(ru2 != nil && ru2.Modify != nil, "C11: a net change of an existing row is a modify")
				if ru2 != nil && ru2.Modify != nil {
					peer := &fix.Root{UUID: fix.U1, Name: "r1", Mode: "a", Num: snap.num, Labels: vCloneStrs(snap.labels)}
					if snap.tag != nil {
						s := *snap.tag
						peer.Tag = &s
					}
					if len(snap.conf) > 0 {
						peer.Conf = map[string]string{}
						for _, e := range snap.conf {
							peer.Conf[e.k] = e.v
						}
					}
					var mu2 ModelUpdates
					rt.Assert(mu2.AddRowUpdate2(dbm, "Root", fix.U1, peer, ovsdb.RowUpdate2{Modify: ru2.Modify}) == nil, "C11: accumulated modify row applies")
					pm := mu2.GetModel("Root", fix.U1)
					rt.Assert(pm != nil && vRefEqModel(ref, pm.(*fix.Root)), "C11: accumulated modify applied to the first old value gives the last new value")
				}
			}
		}
	}
	if m0 != nil {
		rt.Assert(vRefEqModel(snap, m0), "C11: the original model is never altered")
	}
}

var vAllOps = []int{0, 1, 2, 3, 4, 5, 6, 7, 8, 9}

func VerifC11K2()      { verifC11(2, 1, vAllOps) }
func VerifC11K3()      { verifC11(3, 1, vAllOps) }
func VerifC11K1Multi() { verifC11(1, 2, []int{10, 11}) }
func VerifC11K2Multi() { verifC11(2, 1, []int{10, 11}) }
func VerifC11K2Sets()  { verifC11(2, 2, []int{2, 5, 6, 9}) }
func VerifC11K3Sets()  { verifC11(3, 2, []int{2, 5, 6}) }
func VerifC11K2Maps()  { verifC11(2, 2, []int{3, 7, 8, 9}) }
func VerifC11K3Maps()  { verifC11(3, 1, []int{3, 7, 8}) }

func VerifC11TwoMutSet() { verifC11(1, 2, []int{12}) }
func VerifC11TwoMutMap() { verifC11(1, 2, []int{13}) }

// ---- a set column with a finite bound above one (merged element-wise like an unlimited set) ----

const vSchemaBounded = `{"name":"V","version":"1.0.0","tables":{
 "Root":{"isRoot":true,"columns":{
   "few":{"type":{"key":"string","min":0,"max":4}},
   "num":{"type":"integer"}
 }}}}`

type vBounded struct {
	UUID string   `ovsdb:"_uuid"`
	Few  []string `ovsdb:"few"`
	Num  int      `ovsdb:"num"`
}

// VerifC11Bounded: two operations accumulated on a row whose set column is bounded (max 4): the merged update
// takes the old row to the final row, through both encodings.
func VerifC11Bounded() {
	cm, err := model.NewClientDBModel("V", map[string]model.Model{"Root": &vBounded{}})
	if err != nil {
		panic(err)
	}
	dbm, errs := model.NewDatabaseModel(fix.MustSchema(vSchemaBounded), cm)
	if len(errs) > 0 {
		panic(errs[0])
	}
	old := &vBounded{UUID: fix.U1, Few: vStrSet(rt.Choose(3), true)}
	ref := vCloneStrs(old.Few)
	u := ModelUpdates{}
	for i := 0; i < 2; i++ {
		var op ovsdb.Operation
		x := rt.String()
		switch rt.Choose(3) {
		case 0:
			if !vStrIn(x, ref) {
				ref = append(vCloneStrs(ref), x)
			}
			op = ovsdb.Operation{Op: ovsdb.OperationMutate, Table: "Root", Mutations: []ovsdb.Mutation{{Column: "few", Mutator: ovsdb.MutateOperationInsert, Value: vStrSetOvs([]string{x})}}}
		case 1:
			var keep []string
			for _, y := range ref {
				if y != x {
					keep = append(keep, y)
				}
			}
			ref = keep
			op = ovsdb.Operation{Op: ovsdb.OperationMutate, Table: "Root", Mutations: []ovsdb.Mutation{{Column: "few", Mutator: ovsdb.MutateOperationDelete, Value: vStrSetOvs([]string{x})}}}
		case 2:
			s := vStrSet(rt.Choose(3), false)
			ref = vCloneStrs(s)
			op = ovsdb.Operation{Op: ovsdb.OperationUpdate, Table: "Root", Row: ovsdb.Row{"few": vStrSetOvs(s)}}
		}
		rt.Assume(len(ref) <= 4)
		cur := model.Model(old)
		if m := u.GetModel("Root", fix.U1); m != nil {
			cur = m
		}
		one := ModelUpdates{}
		rt.Assert(one.AddOperation(dbm, "Root", fix.U1, cur, &op) == nil, "C11: a well-typed operation is accepted")
		rt.Assert(u.Merge(dbm, one) == nil, "C11: the operation's update merges into the accumulated one")
	}
	rt.Reach("accumulated")
	var final *vBounded
	n := 0
	_ = u.ForEachModelUpdate("Root", func(uuid string, o, nw model.Model) error {
		n++
		final, _ = nw.(*vBounded)
		return nil
	})
	if vStrSetEq(ref, old.Few) {
		rt.Assert(n == 0, "C11: changes that cancel out leave no update (bounded set)")
		return
	}
	rt.Assert(n == 1 && final != nil && vStrSetEq(final.Few, ref), "C11: the accumulated update carries the final value (bounded set)")
	// the update2 modify row, applied to the old row, gives the final row
	_ = u.ForEachRowUpdate("Root", func(uuid string, ru ovsdb.RowUpdate2) error {
		rt.Assert(ru.Modify != nil, "C11: the accumulated update of an existing row is a modify")
		if ru.Modify == nil {
			return nil
		}
		fresh := ModelUpdates{}
		rt.Assert(fresh.AddRowUpdate2(dbm, "Root", fix.U1, old, ovsdb.RowUpdate2{Modify: ru.Modify}) == nil, "C11: the merged modify row applies to the old row")
		got, _ := fresh.GetModel("Root", fix.U1).(*vBounded)
		rt.Assert(got != nil && vStrSetEq(got.Few, ref), "C11: the merged modify row, applied to the old row, gives the final row (bounded set)")
		return nil
	})
}
