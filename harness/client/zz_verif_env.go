package client

// Harness environment for the client-side properties (C01, C16, C18): the real ovsdbClient connected, through the
// connection-level stubs of the executor (natively: a real unix socket and rpc2), to the real OvsdbServer over the
// in-memory database.

import (
	"context"
	"encoding/json"
	"errors"

	"github.com/cenkalti/rpc2"
	dbase "github.com/ovn-org/libovsdb/database"
	"github.com/ovn-org/libovsdb/database/inmemory"
	"github.com/ovn-org/libovsdb/model"
	"github.com/ovn-org/libovsdb/ovsdb"
	"github.com/ovn-org/libovsdb/server"
	rt "github.com/ovn-org/libovsdb/verifrt"
	"github.com/ovn-org/libovsdb/zzverif/fix"
)

type vEnv struct {
	DB  dbase.Database
	Srv *server.OvsdbServer
	EP  string
	Cli *ovsdbClient
	// Writer is a second connection to the server used to commit transactions behind the client's back.
	Writer *rpc2.Client
	// Fail makes the next calls of a method fail: method -> error texts, consumed in order.
	Fail map[string][]string
	// Before is run by the peer before a call of that method is answered, After once the answer has been
	// computed but not yet returned (the reply is still "on the wire").
	Before map[string]func()
	After  map[string]func()
	Calls  map[string]int
	// Limit: a method called more often than this is a failure on the spot (the message says what).
	Limit    map[string]int
	LimitMsg string
}

func vRaw(v interface{}) json.RawMessage {
	b, err := json.Marshal(v)
	if err != nil {
		panic(err)
	}
	return b
}

func vIfaces(args []json.RawMessage) []interface{} {
	out := make([]interface{}, len(args))
	for i, a := range args {
		_ = json.Unmarshal(a, &out[i])
	}
	return out
}

func (e *vEnv) peer(conn *rpc2.Client, method string, args []json.RawMessage) (interface{}, error) {
	e.Calls[method]++
	if n, ok := e.Limit[method]; ok && e.Calls[method] > n {
		rt.Assert(false, e.LimitMsg)
	}
	if f := e.Fail[method]; len(f) > 0 {
		e.Fail[method] = f[1:]
		return nil, errors.New(f[0])
	}
	if f := e.Before[method]; f != nil {
		delete(e.Before, method)
		f()
	}
	r, err := e.answer(conn, method, args)
	if f := e.After[method]; f != nil && err == nil {
		delete(e.After, method)
		f()
	}
	return r, err
}

func (e *vEnv) answer(conn *rpc2.Client, method string, args []json.RawMessage) (interface{}, error) {
	switch method {
	case "list_dbs":
		var r []string
		err := e.Srv.ListDatabases(conn, nil, &r)
		return r, err
	case "get_schema":
		var r ovsdb.DatabaseSchema
		err := e.Srv.GetSchema(conn, vIfaces(args), &r)
		return r, err
	case "transact":
		var r []*ovsdb.OperationResult
		err := e.Srv.Transact(conn, args, &r)
		return r, err
	case "monitor":
		var r ovsdb.TableUpdates
		err := e.Srv.Monitor(conn, args, &r)
		return r, err
	case "monitor_cond":
		var r ovsdb.TableUpdates2
		err := e.Srv.MonitorCond(conn, args, &r)
		return r, err
	case "monitor_cond_since":
		var r ovsdb.MonitorCondSinceReply
		err := e.Srv.MonitorCondSince(conn, args, &r)
		return r, err
	case "monitor_cancel":
		var r []interface{}
		err := e.Srv.MonitorCancel(conn, vIfaces(args), &r)
		return r, err
	case "echo":
		var r []interface{}
		err := e.Srv.Echo(conn, vIfaces(args), &r)
		return r, err
	}
	return nil, errors.New("unknown method")
}

// newVEnv: a server holding the S4 database and a client (not yet connected) pointed at it.
func newVEnv(opts ...Option) *vEnv {
	e := &vEnv{Fail: map[string][]string{}, Before: map[string]func(){}, After: map[string]func(){}, Calls: map[string]int{}}
	e.DB = inmemory.NewDatabase(map[string]model.ClientDBModel{"V": fix.ClientModelS4()})
	srv, err := server.NewOvsdbServer(e.DB, fix.DBModelS4())
	if err != nil {
		panic(err)
	}
	e.Srv = srv
	e.EP = rt.Listen(e.peer)
	e.Writer = rt.NewRPCClient(func(method string, args []json.RawMessage) (interface{}, error) {
		return []interface{}{}, nil
	})
	cli, err := newOVSDBClient(fix.ClientModelS4(), append([]Option{WithEndpoint(e.EP)}, opts...)...)
	if err != nil {
		panic(err)
	}
	e.Cli = cli
	return e
}

// Write commits a transaction through a connection that is not the client's.
func (e *vEnv) Write(ops ...ovsdb.Operation) bool {
	args := []json.RawMessage{vRaw("V")}
	for _, op := range ops {
		args = append(args, vRaw(op))
	}
	var reply []*ovsdb.OperationResult
	if err := e.Srv.Transact(e.Writer, args, &reply); err != nil {
		return false
	}
	for _, r := range reply {
		if r != nil && r.Error != "" {
			return false
		}
	}
	return true
}

// locksFree: no client lock is held (natively: every mutex can be taken; in the executor also: nothing at all is
// held by the lock model).
func (e *vEnv) locksFree() bool {
	o := e.Cli
	ok := true
	if o.rpcMutex.TryLock() {
		o.rpcMutex.Unlock()
	} else {
		ok = false
	}
	if o.shutdownMutex.TryLock() {
		o.shutdownMutex.Unlock()
	} else {
		ok = false
	}
	for _, db := range o.databases {
		if db.modelMutex.TryLock() {
			db.modelMutex.Unlock()
		} else {
			ok = false
		}
		if db.cacheMutex.TryLock() {
			db.cacheMutex.Unlock()
		} else {
			ok = false
		}
		if db.monitorsMutex.TryLock() {
			db.monitorsMutex.Unlock()
		} else {
			ok = false
		}
	}
	return ok && rt.HeldLocks() == 0
}

// mirrors: for every table in tables the client's cache holds exactly the rows of the database.
func (e *vEnv) mirrors(tables ...string) bool {
	for _, t := range tables {
		dbRows, err := e.DB.List("V", t)
		if err != nil {
			return false
		}
		tc := e.Cli.Cache().Table(t)
		if tc == nil {
			return false
		}
		rows := tc.Rows()
		if len(rows) != len(dbRows) {
			return false
		}
		for u, dm := range dbRows {
			cm, ok := rows[u]
			if !ok || !model.Equal(dm, cm) {
				return false
			}
		}
	}
	return true
}

func vByUUID(u string) []ovsdb.Condition {
	return []ovsdb.Condition{{Column: "_uuid", Function: ovsdb.ConditionEqual, Value: ovsdb.UUID{GoUUID: u}}}
}

func vSet(us ...string) ovsdb.OvsSet {
	gs := make([]interface{}, len(us))
	for i, u := range us {
		gs[i] = ovsdb.UUID{GoUUID: u}
	}
	return ovsdb.OvsSet{GoSet: gs}
}

// VerifClientSmoke: connect, monitor everything, a foreign write, the cache follows.
func VerifClientSmoke() {
	e := newVEnv()
	rt.Assert(e.Write(
		ovsdb.Operation{Op: ovsdb.OperationInsert, Table: "Child", UUID: fix.C1, Row: ovsdb.Row{"name": "c1"}},
		ovsdb.Operation{Op: ovsdb.OperationInsert, Table: "Root", UUID: fix.U1, Row: ovsdb.Row{"name": "r1", "kids": vSet(fix.C1)}}), "seeding accepted")
	ctx := context.Background()
	rt.Assert(e.Cli.Connect(ctx) == nil, "connect succeeds")
	_, err := e.Cli.MonitorAll(ctx)
	rt.Assert(err == nil, "monitor all succeeds")
	rt.Assert(e.mirrors("Root", "Child"), "cache mirrors after the initial dump")
	rt.Assert(e.Write(ovsdb.Operation{Op: ovsdb.OperationUpdate, Table: "Root", Where: vByUUID(fix.U1), Row: ovsdb.Row{"num": 7}}), "write accepted")
	rt.RunPending()
	rt.Reach("ran")
	rt.Assert(e.mirrors("Root", "Child"), "cache mirrors after a notification")
	rt.Assert(e.locksFree(), "no lock left held")
}
