package client

// C13 (client API part): models returned by the client's read API share no memory with the cached rows.

import (
	"context"

	"github.com/ovn-org/libovsdb/model"
	"github.com/ovn-org/libovsdb/ovsdb"
	rt "github.com/ovn-org/libovsdb/verifrt"
	"github.com/ovn-org/libovsdb/zzverif/fix"
)

// VerifC13ClientReads: a row with a non-empty set, map and optional value is read through every read entry of the
// client API, into slices of structs and of pointers.
func VerifC13ClientReads() {
	e := newVEnv()
	row := ovsdb.Row{"name": "r1", "kids": vSet(fix.C1)}
	if rt.Choose(2) == 1 {
		row["wopt"] = vSet(fix.C1)
	}
	if rt.Choose(2) == 1 {
		row["byk"] = ovsdb.OvsMap{GoMap: map[interface{}]interface{}{ovsdb.UUID{GoUUID: fix.C1}: "x"}}
	}
	rt.Assert(e.Write(
		ovsdb.Operation{Op: ovsdb.OperationInsert, Table: "Child", UUID: fix.C1, Row: ovsdb.Row{"name": "c1"}},
		ovsdb.Operation{Op: ovsdb.OperationInsert, Table: "Root", UUID: fix.U1, Row: row}), "C13: seeding accepted")
	ctx := context.Background()
	rt.Assert(e.Cli.Connect(ctx) == nil, "C13: connect succeeds")
	_, err := e.Cli.MonitorAll(ctx)
	rt.Assert(err == nil, "C13: monitor all succeeds")
	internal := e.Cli.primaryDB().cache.Table("Root").RowsShallow()[fix.U1]
	rt.Assert(internal != nil, "C13: the row is cached")
	check := func(what string, m model.Model) {
		rt.Assert(m != nil, "C13: "+what+" finds the row")
		if m != nil {
			rt.Assert(!rt.Shares(m, internal), "C13: a model returned by "+what+" shares no slice, map or pointer with the cached row")
			rt.Assert(model.Equal(m, internal), "C13: a model returned by "+what+" equals the cached row")
		}
	}
	switch rt.Choose(9) {
	case 0:
		m := &fix.Root4{UUID: fix.U1}
		rt.Assert(e.Cli.Get(ctx, m) == nil, "C13: Get succeeds")
		check("Get", m)
	case 1:
		var rows []fix.Root4
		rt.Assert(e.Cli.List(ctx, &rows) == nil && len(rows) == 1, "C13: List into []T succeeds")
		if len(rows) == 1 {
			check("List into a slice of structs", &rows[0])
		}
	case 2:
		var rows []*fix.Root4
		rt.Assert(e.Cli.List(ctx, &rows) == nil && len(rows) == 1, "C13: List into []*T succeeds")
		if len(rows) == 1 {
			check("List into a slice of pointers", rows[0])
		}
	case 3:
		var rows []fix.Root4
		rt.Assert(e.Cli.WhereCache(func(r *fix.Root4) bool { return true }).List(ctx, &rows) == nil && len(rows) == 1, "C13: WhereCache.List into []T succeeds")
		if len(rows) == 1 {
			check("WhereCache.List into a slice of structs", &rows[0])
		}
	case 4:
		var rows []*fix.Root4
		rt.Assert(e.Cli.WhereCache(func(r *fix.Root4) bool { return true }).List(ctx, &rows) == nil && len(rows) == 1, "C13: WhereCache.List into []*T succeeds")
		if len(rows) == 1 {
			check("WhereCache.List into a slice of pointers", rows[0])
		}
	case 5:
		var rows []fix.Root4
		rt.Assert(e.Cli.Where(&fix.Root4{UUID: fix.U1}).List(ctx, &rows) == nil && len(rows) == 1, "C13: Where.List into []T succeeds")
		if len(rows) == 1 {
			check("Where.List into a slice of structs", &rows[0])
		}
	case 6:
		var rows []*fix.Root4
		rt.Assert(e.Cli.Where(&fix.Root4{Name: "r1"}).List(ctx, &rows) == nil && len(rows) == 1, "C13: Where(index).List into []*T succeeds")
		if len(rows) == 1 {
			check("Where(index).List into a slice of pointers", rows[0])
		}
	case 7:
		check("Cache().Table().Row", e.Cli.Cache().Table("Root").Row(fix.U1))
	case 8:
		r := &fix.Root4{}
		var rows []fix.Root4
		rt.Assert(e.Cli.WhereAll(r, model.Condition{Field: &r.Name, Function: ovsdb.ConditionEqual, Value: "r1"}).List(ctx, &rows) == nil && len(rows) == 1, "C13: WhereAll.List succeeds")
		if len(rows) == 1 {
			check("WhereAll.List into a slice of structs", &rows[0])
		}
	}
	rt.Reach("ran")
}
