package client

// C16: after losing its connection a client configured to reconnect re-establishes its monitors and its cache
// converges to the database again; a Transact call that returns results was applied once, one that returns an
// error at most once.

import (
	"context"
	"time"

	"github.com/cenkalti/backoff/v4"
	"github.com/ovn-org/libovsdb/ovsdb"
	rt "github.com/ovn-org/libovsdb/verifrt"
	"github.com/ovn-org/libovsdb/zzverif/c04"
	"github.com/ovn-org/libovsdb/zzverif/fix"
)

func c16Env() *vEnv {
	return newVEnv(WithReconnect(2*time.Second, &backoff.ZeroBackOff{}))
}

// waitConnected lets the background threads run until the client reports being connected again.
func (e *vEnv) waitConnected() bool {
	for i := 0; i < 100; i++ {
		rt.RunPending()
		if e.Cli.Connected() && e.Cli.CurrentEndpoint() != "" {
			rt.RunPending()
			return true
		}
	}
	return false
}

var c16Failing = []string{"list_dbs", "get_schema", "monitor", "monitor_cond", "monitor_cond_since"}

// c16Resync: symbolic consistent database; 1 or 2 monitors (any methods) over Root and Child; the connection is
// cut; a symbolic transaction commits while the client is away; the first nFail reconnection attempts fail at a
// chosen call (or the connection is cut again inside the monitor restart); then the client reconnects.
func c16Resync(cfg c04.Cfg, twoMonitors, follow, before bool) {
	e := c16Env()
	s := c04.SymState(cfg)
	rt.Assert(e.Write(c04.SeedOps(s)...), "C16: seeding a consistent state is accepted")
	ctx := context.Background()
	rt.Assert(e.Cli.Connect(ctx) == nil, "C16: connect succeeds")
	var mons []c01Mon
	if twoMonitors {
		mons = []c01Mon{{method: rt.Choose(3), tables: []string{"Root"}}, {method: rt.Choose(3), tables: []string{"Child"}}}
	} else {
		mons = []c01Mon{{method: rt.Choose(3), tables: []string{"Root", "Child"}}}
	}
	for _, m := range mons {
		rt.Assert(e.c01Monitor(ctx, m) == nil, "C16: the monitor is established")
	}
	rt.Assert(e.c01Mirrors(mons...), "C16: the cache mirrors the database before the connection is lost")
	if before && len(s.Roots) > 0 {
		// a notification is received before the connection is lost (the client then knows a last transaction id)
		op := c04.SymOp(s, cfg)
		ok := s.WellFormed() && s.Normalize()
		rt.Assume(ok)
		rt.Assert(e.Write(op), "C16: a transaction committed before the cut is accepted")
		rt.RunPending()
		rt.Assert(e.c01Mirrors(mons...), "C16: the cache follows the database before the connection is lost")
	}

	// the endpoint stops accepting connections until the transaction below has committed, so that natively too
	// the client reconnects only afterwards
	rt.SetListening(e.EP, false)
	rt.CutConnections()
	// while the client is away
	if len(s.Roots) > 0 {
		op := c04.SymOp(s, cfg)
		ok := s.WellFormed() && s.Normalize()
		rt.Assume(ok)
		rt.Assert(e.Write(op), "C16: a transaction committed while the client is away is accepted")
	}
	// faults during the reconnection
	switch rt.Choose(3) {
	case 1: // one call of the first attempt fails
		e.Fail[c16Failing[rt.Choose(len(c16Failing))]] = []string{"boom"}
	case 2: // the connection is cut again while the monitors are being restarted
		m := c01Methods[mons[len(mons)-1].method]
		e.After[m] = func() { rt.CutConnections() }
	}
	rt.SetListening(e.EP, true)
	rt.Assert(e.waitConnected(), "C16: the client reports being connected again")
	rt.Reach("ran")
	rt.Assert(s.Matches(e.DB), "C16: the database holds the reference contents")
	rt.Assert(e.c01Mirrors(mons...), "C16: once reconnected the cache holds exactly the rows of the database for every monitored table")
	rt.Assert(e.locksFree(), "C16: no lock is left held after the reconnection")
	// and it keeps following
	if follow && len(s.Roots) > 0 {
		op := c04.SymOp(s, cfg)
		ok := s.WellFormed() && s.Normalize()
		rt.Assume(ok)
		rt.Assert(e.Write(op), "C16: a later transaction is accepted")
		rt.RunPending()
		rt.Assert(e.c01Mirrors(mons...), "C16: after the reconnection the cache keeps following the database")
	}
}

var c16Kids = c04.Cfg{Kids: true, NChildren: 2}

func VerifC16One()       { c16Resync(c16Kids, false, false, false) }
func VerifC16Two()       { c16Resync(c16Kids, true, false, false) }
func VerifC16OneFollow() { c16Resync(c16Kids, false, true, false) }
func VerifC16TwoFollow() { c16Resync(c16Kids, true, true, false) }

// VerifC16OneBefore: as One, with a transaction followed before the cut (a last transaction id is known).
func VerifC16OneBefore() { c16Resync(c16Kids, false, false, true) }

// VerifC16Transact: the connection is lost while a transaction is in flight (before the request is handled, or
// after it was applied but before the reply arrives), or not at all.
func VerifC16Transact() {
	e := c16Env()
	rt.Assert(e.Write(ovsdb.Operation{Op: ovsdb.OperationInsert, Table: "Root", UUID: fix.U1, Row: ovsdb.Row{"name": "r1", "num": 5}}), "C16: seeding accepted")
	ctx := context.Background()
	rt.Assert(e.Cli.Connect(ctx) == nil, "C16: connect succeeds")
	_, err := e.Cli.MonitorAll(ctx)
	rt.Assert(err == nil, "C16: monitor all succeeds")
	e.Limit = map[string]int{"transact": 1}
	e.LimitMsg = "C16: a transaction is sent to the server at most once (a reply lost with the connection must not lead to a second submission)"
	switch rt.Choose(3) {
	case 1:
		e.Before["transact"] = func() { rt.CutConnections() }
	case 2:
		e.After["transact"] = func() { rt.CutConnections() }
	}
	res, err := e.Cli.Transact(ctx, ovsdb.Operation{Op: ovsdb.OperationMutate, Table: "Root", Where: vByUUID(fix.U1),
		Mutations: []ovsdb.Mutation{{Column: "num", Mutator: ovsdb.MutateOperationAdd, Value: 1}}})
	rt.Reach("ran")
	rows, _ := e.DB.List("V", "Root")
	num := rows[fix.U1].(*fix.Root4).Num
	if err == nil {
		rt.Assert(len(res) == 1 && res[0].Error == "" && num == 6, "C16: a Transact call that returns results was applied exactly once")
	} else {
		rt.Assert(num == 5 || num == 6, "C16: a Transact call that returns an error was applied at most once")
	}
	rt.Assert(e.Calls["transact"] <= 1, "C16: the request is sent at most once")
	rt.Assert(e.waitConnected(), "C16: the client reports being connected again")
	rt.Assert(e.mirrors("Root"), "C16: once reconnected the cache holds the database contents")
}
