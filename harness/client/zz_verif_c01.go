package client

// C01: after a monitor is established and every notification processed, the client's cache holds exactly the
// monitored part of the database; a notification that arrives before the monitor's initial contents are applied is
// not lost; the client's own transaction is in its cache when Transact returns.

import (
	"context"

	"github.com/ovn-org/libovsdb/model"
	"github.com/ovn-org/libovsdb/ovsdb"
	rt "github.com/ovn-org/libovsdb/verifrt"
	"github.com/ovn-org/libovsdb/zzverif/c04"
	"github.com/ovn-org/libovsdb/zzverif/fix"
)

var c01Methods = []string{ovsdb.MonitorRPC, ovsdb.ConditionalMonitorRPC, ovsdb.ConditionalMonitorSinceRPC}

// c01Mon describes one monitor: method, tables, and whether only a subset of the columns is monitored.
type c01Mon struct {
	method int
	tables []string
	subset bool
}

func c01SymMon(methods int, tableMenu [][]string) c01Mon {
	m := c01Mon{method: rt.Choose(methods)}
	m.tables = tableMenu[rt.Choose(len(tableMenu))]
	m.subset = rt.Choose(2) == 1
	return m
}

func (e *vEnv) c01Monitor(ctx context.Context, m c01Mon) error {
	var opts []MonitorOption
	for _, t := range m.tables {
		switch t {
		case "Root":
			r := &fix.Root4{}
			if m.subset {
				opts = append(opts, WithTable(r, &r.Name, &r.Kids))
			} else {
				opts = append(opts, WithTable(r))
			}
		case "Child":
			c := &fix.Child4{}
			if m.subset {
				opts = append(opts, WithTable(c, &c.Name))
			} else {
				opts = append(opts, WithTable(c))
			}
		}
	}
	mon := e.Cli.NewMonitor(opts...)
	mon.Method = c01Methods[m.method]
	_, err := e.Cli.Monitor(ctx, mon)
	if err != nil {
		rt.Note("monitor error", err.Error())
	}
	return err
}

func c01In(x string, s []string) bool {
	for _, y := range s {
		if x == y {
			return true
		}
	}
	return false
}

func c01SetEq(a, b []string) bool {
	if len(a) != len(b) {
		return false
	}
	for _, x := range a {
		if !c01In(x, b) {
			return false
		}
	}
	return true
}

func c01OptEq(a, b *string) bool { return (a == nil && b == nil) || (a != nil && b != nil && *a == *b) }

func c01MapEq(a, b map[string]string) bool {
	if len(a) != len(b) {
		return false
	}
	for k, v := range a {
		if w, ok := b[k]; !ok || v != w {
			return false
		}
	}
	return true
}

// c01Mirrors: for every monitored table the cache holds exactly the database rows, equal in every monitored column.
func (e *vEnv) c01Mirrors(mons ...c01Mon) bool {
	for _, t := range []string{"Root", "Child"} {
		monitored, all := false, false
		for _, m := range mons {
			if c01In(t, m.tables) {
				monitored = true
				if !m.subset {
					all = true
				}
			}
		}
		if !monitored {
			continue
		}
		dbRows, err := e.DB.List("V", t)
		if err != nil {
			return false
		}
		tc := e.Cli.Cache().Table(t)
		if tc == nil {
			return false
		}
		rows := tc.Rows()
		if len(rows) != len(dbRows) {
			return false
		}
		for u, dm := range dbRows {
			cm, ok := rows[u]
			if !ok {
				return false
			}
			switch d := dm.(type) {
			case *fix.Root4:
				c := cm.(*fix.Root4)
				if d.Name != c.Name || !c01SetEq(d.Kids, c.Kids) {
					return false
				}
				if all && (d.Num != c.Num || !c01SetEq(d.Wk, c.Wk) || !c01OptEq(d.Wopt, c.Wopt) || !c01MapEq(d.Byk, c.Byk) || !c01MapEq(d.Byv, c.Byv)) {
					return false
				}
			case *fix.Child4:
				c := cm.(*fix.Child4)
				if d.Name != c.Name {
					return false
				}
				if all && !c01OptEq(d.Next, c.Next) {
					return false
				}
			default:
				if !model.Equal(dm, cm) {
					return false
				}
			}
		}
	}
	return true
}

var c01Tables = [][]string{{"Root", "Child"}, {"Root"}, {"Child"}}

// c01Step: a symbolic consistent database; the client connects and establishes one monitor (any method, any of
// the table/column choices); optionally a transaction commits while the monitor reply is on the wire; then nOps
// further symbolic transactions commit; the cache must mirror the monitored part throughout.
func c01Step(cfg c04.Cfg, nTxn int, window bool) {
	e := newVEnv()
	s := c04.SymState(cfg)
	rt.Assert(e.Write(c04.SeedOps(s)...), "C01: seeding a consistent state is accepted")
	ctx := context.Background()
	rt.Assert(e.Cli.Connect(ctx) == nil, "C01: connect succeeds")
	m := c01SymMon(3, c01Tables)
	if window && len(s.Roots) > 0 {
		op := c04.SymOp(s, cfg)
		ok := s.WellFormed() && s.Normalize()
		rt.Assume(ok)
		e.After[c01Methods[m.method]] = func() {
			rt.Assert(e.Write(op), "C01: the transaction committed while the monitor reply is on the wire is accepted")
		}
	}
	rt.Assert(e.c01Monitor(ctx, m) == nil, "C01: the monitor is established")
	rt.RunPending()
	rt.Reach("monitored")
	rt.Assert(s.Matches(e.DB), "C01: the database holds the reference contents")
	rt.Assert(e.c01Mirrors(m), "C01: once the monitor is established (and a notification that raced with its reply is processed) the cache mirrors the monitored part of the database")
	for i := 0; i < nTxn && len(s.Roots) > 0; i++ {
		op := c04.SymOp(s, cfg)
		ok := s.WellFormed() && s.Normalize()
		rt.Assume(ok)
		rt.Assert(e.Write(op), "C01: a transaction keeping referential integrity is accepted")
		rt.RunPending()
		rt.Assert(e.c01Mirrors(m), "C01: after a committed transaction's notification is processed the cache mirrors the monitored part of the database")
	}
	rt.Reach("ran")
	rt.Assert(e.locksFree(), "C01: no lock is left held")
}

var c01Kids = c04.Cfg{Kids: true, NChildren: 2}
var c01Weak = c04.Cfg{Kids: true, Wk: true, Wopt: true, NChildren: 2}
var c01Chain = c04.Cfg{Kids: true, Next: true, NChildren: 2}

func VerifC01Kids1()   { c01Step(c01Kids, 1, false) }
func VerifC01Kids2()   { c01Step(c01Kids, 2, false) }
func VerifC01Weak1()   { c01Step(c01Weak, 1, false) }
func VerifC01Chain1()  { c01Step(c01Chain, 1, false) }
func VerifC01Window()  { c01Step(c01Kids, 0, true) }
func VerifC01Window1() { c01Step(c01Kids, 1, true) }

// VerifC01Second: an additional monitor on the same connection (any method, tables overlapping the first or not),
// possibly with a transaction committing while its reply is on the wire.
func VerifC01Second() {
	cfg := c01Kids
	e := newVEnv()
	s := c04.SymState(cfg)
	rt.Assert(e.Write(c04.SeedOps(s)...), "C01: seeding a consistent state is accepted")
	ctx := context.Background()
	rt.Assert(e.Cli.Connect(ctx) == nil, "C01: connect succeeds")
	m1 := c01Mon{method: rt.Choose(3), tables: c01Tables[1+rt.Choose(2)]}
	rt.Assert(e.c01Monitor(ctx, m1) == nil, "C01: the first monitor is established")
	m2 := c01Mon{method: rt.Choose(3)}
	if m1.tables[0] == "Root" {
		m2.tables = []string{"Child"}
	} else {
		m2.tables = []string{"Root"}
	}
	if rt.Choose(2) == 1 && len(s.Roots) > 0 {
		op := c04.SymOp(s, cfg)
		ok := s.WellFormed() && s.Normalize()
		rt.Assume(ok)
		e.After[c01Methods[m2.method]] = func() {
			rt.Assert(e.Write(op), "C01: the transaction committed while the monitor reply is on the wire is accepted")
		}
	}
	rt.Assert(e.c01Monitor(ctx, m2) == nil, "C01: the additional monitor is established")
	rt.RunPending()
	rt.Reach("monitored")
	rt.Assert(e.c01Mirrors(m1, m2), "C01: with an additional monitor established the cache mirrors the monitored part of the database")
	if len(s.Roots) > 0 {
		op := c04.SymOp(s, cfg)
		ok := s.WellFormed() && s.Normalize()
		rt.Assume(ok)
		rt.Assert(e.Write(op), "C01: a transaction keeping referential integrity is accepted")
		rt.RunPending()
		rt.Assert(e.c01Mirrors(m1, m2), "C01: with two monitors, after a committed transaction's notifications are processed the cache mirrors the monitored part of the database")
	}
	rt.Reach("ran")
}

// VerifC01OwnWrite: the client's own transaction is in its cache when Transact returns.
func VerifC01OwnWrite() {
	cfg := c01Kids
	e := newVEnv()
	s := c04.SymState(cfg)
	rt.Assert(e.Write(c04.SeedOps(s)...), "C01: seeding a consistent state is accepted")
	ctx := context.Background()
	rt.Assert(e.Cli.Connect(ctx) == nil, "C01: connect succeeds")
	m := c01Mon{method: rt.Choose(3), tables: []string{"Root", "Child"}}
	rt.Assert(e.c01Monitor(ctx, m) == nil, "C01: the monitor is established")
	op := c04.SymOp(s, cfg)
	ok := s.WellFormed() && s.Normalize()
	rt.Assume(ok)
	res, err := e.Cli.Transact(ctx, op)
	rt.Reach("ran")
	rt.Assert(err == nil, "C01: the client's transaction gets a reply")
	for _, r := range res {
		rt.Assert(r.Error == "", "C01: the client's transaction is accepted")
	}
	rt.Assert(e.c01Mirrors(m), "C01: the effects of the client's own transaction are in its cache when Transact returns")
}
