package client

// C18 (lock discipline part): every client API entry, on every outcome (bad arguments, the RPC failing, not
// connected), returns with every client lock released, and a call made afterwards returns too.

import (
	"context"

	"github.com/ovn-org/libovsdb/model"

	"github.com/ovn-org/libovsdb/ovsdb"
	rt "github.com/ovn-org/libovsdb/verifrt"
	"github.com/ovn-org/libovsdb/zzverif/fix"
)

type notInModel struct {
	UUID string `ovsdb:"_uuid"`
}

func c18Seed(e *vEnv) {
	rt.Assert(e.Write(
		ovsdb.Operation{Op: ovsdb.OperationInsert, Table: "Child", UUID: fix.C1, Row: ovsdb.Row{"name": "c1"}},
		ovsdb.Operation{Op: ovsdb.OperationInsert, Table: "Root", UUID: fix.U1, Row: ovsdb.Row{"name": "r1", "kids": vSet(fix.C1)}}), "seeding accepted")
}

// c18Monitor builds a monitor request from the menu of good and bad ones.
func c18Monitor(e *vEnv, kind int) *Monitor {
	o := e.Cli
	switch kind {
	case 0:
		return o.NewMonitor(WithTable(&fix.Root4{}))
	case 1: // unknown table
		return &Monitor{Method: ovsdb.ConditionalMonitorSinceRPC, Tables: []TableMonitor{{Table: "Nope"}}, LastTransactionID: emptyUUID}
	case 2: // no table
		return &Monitor{Method: ovsdb.ConditionalMonitorSinceRPC, LastTransactionID: emptyUUID}
	case 3: // option that failed
		return o.NewMonitor(WithTable(&notInModel{}))
	case 4: // unsupported method
		return &Monitor{Method: "bogus", Tables: []TableMonitor{{Table: "Root"}}, LastTransactionID: emptyUUID}
	case 5: // a good table followed by an unknown one
		return &Monitor{Method: ovsdb.ConditionalMonitorRPC, Tables: []TableMonitor{{Table: "Root"}, {Table: "Nope"}}, LastTransactionID: emptyUUID}
	case 6: // unknown column
		return &Monitor{Method: ovsdb.MonitorRPC, Tables: []TableMonitor{{Table: "Root", Fields: []string{"nope"}}}, LastTransactionID: emptyUUID}
	default: // plain monitor method, two tables
		return &Monitor{Method: ovsdb.MonitorRPC, Tables: []TableMonitor{{Table: "Root"}, {Table: "Child"}}, LastTransactionID: emptyUUID}
	}
}

const c18MonitorKinds = 8

// c18Call makes one API call from the menu; the result is irrelevant, it has to return.
func c18Call(e *vEnv, ctx context.Context, kind int) {
	o := e.Cli
	switch kind {
	case 0:
		_ = o.Echo(ctx)
	case 1:
		_, _ = o.Transact(ctx, ovsdb.Operation{Op: ovsdb.OperationUpdate, Table: "Root", Where: vByUUID(fix.U1), Row: ovsdb.Row{"num": 3}})
	case 2: // fails validation
		_, _ = o.Transact(ctx, ovsdb.Operation{Op: ovsdb.OperationUpdate, Table: "Nope", Where: vByUUID(fix.U1), Row: ovsdb.Row{"num": 3}})
	case 3:
		_ = o.Get(ctx, &fix.Root4{UUID: fix.U1})
	case 4:
		_ = o.Get(ctx, &notInModel{UUID: fix.U1})
	case 5:
		var rows []fix.Root4
		_ = o.List(ctx, &rows)
	case 6:
		_ = o.MonitorCancel(ctx, MonitorCookie{DatabaseName: "V", ID: "unknown"})
	case 7:
		_ = o.SetOption(WithLeaderOnly(false))
	case 8:
		_, _ = o.MonitorAll(ctx)
	case 9:
		_ = o.Schema()
		_ = o.Cache()
		_ = o.Connected()
		_ = o.CurrentEndpoint()
	case 10:
		_ = o.Connect(ctx)
	case 11:
		o.Disconnect()
	case 12:
		o.Close()
	case 13:
		_, _ = o.Monitor(ctx, c18Monitor(e, 1))
	case 14:
		o.UpdateEndpoints([]string{e.EP})
	}
}

const c18Calls = 15

var c18Methods = []string{"echo", "transact", "monitor_cond_since", "monitor_cancel", "list_dbs", "get_schema"}

// VerifC18Monitor: Monitor with good and bad requests and every RPC outcome, then one more call.
func VerifC18Monitor() {
	e := newVEnv()
	c18Seed(e)
	ctx := context.Background()
	rt.Assert(e.Cli.Connect(ctx) == nil, "C18: connect succeeds")
	rt.Assert(e.locksFree(), "C18: Connect returns with every lock released")
	established := rt.Choose(2) == 1
	if established {
		_, err := e.Cli.Monitor(ctx, e.Cli.NewMonitor(WithTable(&fix.Child4{})))
		rt.Assert(err == nil, "C18: a first monitor is established")
	}
	m := c18Monitor(e, rt.Choose(c18MonitorKinds))
	switch rt.Choose(5) {
	case 1:
		e.Fail[m.Method] = []string{"boom"}
	case 2:
		e.Fail[m.Method] = []string{"unknown method"}
	case 3: // an old server: the newer methods are unknown, and the retried older one fails
		e.Fail[ovsdb.ConditionalMonitorSinceRPC] = []string{"unknown method"}
		e.Fail[ovsdb.ConditionalMonitorRPC] = []string{"boom"}
	case 4:
		e.Fail[ovsdb.ConditionalMonitorSinceRPC] = []string{"unknown method"}
		e.Fail[ovsdb.ConditionalMonitorRPC] = []string{"unknown method"}
		e.Fail[ovsdb.MonitorRPC] = []string{"boom"}
	}
	_, merr := e.Cli.Monitor(ctx, m)
	rt.Reach("ran")
	rt.Assert(e.locksFree(), "C18: Monitor returns with every lock released")
	if established || merr == nil {
		rt.Assert(e.readable(), "C18: with a monitor established and no set-up in progress, reads do not wait (updates are not being deferred)")
	}
	if established {
		// the established monitor keeps feeding the cache
		rt.Assert(e.Write(ovsdb.Operation{Op: ovsdb.OperationUpdate, Table: "Child", Where: vByUUID(fix.C1), Row: ovsdb.Row{"name": "renamed"}}), "C18: a foreign write is accepted")
		rt.RunPending()
		rt.Assert(e.mirrors("Child"), "C18: notifications of the established monitor still reach the cache after another Monitor call returned")
	}
	c18Call(e, ctx, rt.Choose(c18Calls))
	rt.RunPending()
	rt.Reach("followed")
	rt.Assert(e.locksFree(), "C18: the call after Monitor returns with every lock released")
}

// readable: reads would not wait for the cache (isCacheConsistent).
func (e *vEnv) readable() bool {
	db := e.Cli.primaryDB()
	db.cacheMutex.RLock()
	defer db.cacheMutex.RUnlock()
	return !db.deferUpdates
}

// VerifC18HeldRow: a reader that holds a cached row across a notification keeps the version it read: cached objects
// are replaced, never written (the reason concurrent readers never see a row mixing two versions).
func VerifC18HeldRow() {
	e := newVEnv()
	c18Seed(e)
	ctx := context.Background()
	rt.Assert(e.Cli.Connect(ctx) == nil, "C18: connect succeeds")
	mon := e.Cli.NewMonitor(WithTable(&fix.Root4{}), WithTable(&fix.Child4{}))
	mon.Method = c01Methods[rt.Choose(3)]
	_, err := e.Cli.Monitor(ctx, mon)
	rt.Assert(err == nil, "C18: the monitor is established")
	held := e.Cli.Cache().Table("Root").RowsShallow()[fix.U1]
	rt.Assert(held != nil, "C18: the row is cached")
	before := model.Clone(held)
	var op ovsdb.Operation
	switch rt.Choose(4) {
	case 0:
		op = ovsdb.Operation{Op: ovsdb.OperationUpdate, Table: "Root", Where: vByUUID(fix.U1), Row: ovsdb.Row{"num": 9, "name": "other"}}
	case 1:
		op = ovsdb.Operation{Op: ovsdb.OperationMutate, Table: "Root", Where: vByUUID(fix.U1),
			Mutations: []ovsdb.Mutation{{Column: "kids", Mutator: ovsdb.MutateOperationDelete, Value: vSet(fix.C1)}}}
	case 2:
		op = ovsdb.Operation{Op: ovsdb.OperationUpdate, Table: "Root", Where: vByUUID(fix.U1),
			Row: ovsdb.Row{"byv": ovsdb.OvsMap{GoMap: map[interface{}]interface{}{"k": ovsdb.UUID{GoUUID: fix.C1}}}, "wopt": vSet(fix.C1)}}
	case 3:
		op = ovsdb.Operation{Op: ovsdb.OperationDelete, Table: "Root", Where: vByUUID(fix.U1)}
	}
	rt.Assert(e.Write(op), "C18: a foreign write is accepted")
	rt.RunPending()
	rt.Reach("ran")
	rt.Assert(e.c01Mirrors(c01Mon{tables: []string{"Root", "Child"}}), "C18: the notification is applied")
	rt.Assert(model.Equal(held, before), "C18: a cached row a reader holds is not rewritten by a later notification")
	if now := e.Cli.Cache().Table("Root").RowsShallow()[fix.U1]; now != nil {
		rt.Assert(!rt.Shares(now, held), "C18: the new version of a row shares no memory with the version readers may hold")
	}
}

// VerifC18Calls: two API calls in a row on a connected client with one monitor, any of the RPCs possibly failing.
func VerifC18Calls() {
	e := newVEnv()
	c18Seed(e)
	ctx := context.Background()
	rt.Assert(e.Cli.Connect(ctx) == nil, "C18: connect succeeds")
	if rt.Choose(2) == 1 {
		_, err := e.Cli.MonitorAll(ctx)
		rt.Assert(err == nil, "C18: monitor all succeeds")
	}
	if k := rt.Choose(len(c18Methods) + 1); k > 0 {
		e.Fail[c18Methods[k-1]] = []string{"boom"}
	}
	c18Call(e, ctx, rt.Choose(c18Calls))
	rt.RunPending()
	rt.Reach("ran")
	rt.Assert(e.locksFree(), "C18: an API call returns with every lock released")
	c18Call(e, ctx, rt.Choose(c18Calls))
	rt.RunPending()
	rt.Reach("followed")
	rt.Assert(e.locksFree(), "C18: the next API call returns with every lock released")
}

// VerifC18NotConnected: every API call on a client that never connected (or whose endpoint refuses).
func VerifC18NotConnected() {
	e := newVEnv()
	ctx := context.Background()
	if rt.Choose(2) == 1 {
		rt.SetListening(e.EP, false)
		rt.Assert(e.Cli.Connect(ctx) != nil, "C18: connecting to a closed endpoint fails")
		rt.Assert(e.locksFree(), "C18: a failed Connect returns with every lock released")
	}
	k := rt.Choose(c18Calls)
	rt.Assume(k != 10 || true)
	c18Call(e, ctx, k)
	rt.RunPending()
	rt.Reach("ran")
	rt.Assert(e.locksFree(), "C18: an API call on a client that is not connected returns with every lock released")
}
