#!/usr/bin/env python3
"""Assembles DESIGN.md: Part I (tools/design_part1.md with the seed table and counts filled in) + Part II (the
original design, tools/design_part2.md)."""
import subprocess, json, re
p1 = open('/verif/tools/design_part1.md').read()
table = subprocess.run(['python3', '/verif/tools/seedtable.py'], capture_output=True, text=True).stdout
nfix = subprocess.run('git -C /repo log --format=%s | grep -c "^fix:"', shell=True, capture_output=True, text=True).stdout.strip()
import glob, os
rows = ['| id | tier | entries | states | decisions | solver queries | solver s | validated | wall s |', '|---|---|---|---|---|---|---|---|---|']
for f in sorted(glob.glob('/verif/evidence/C*.json')):
    e = json.load(open(f)); c = e['coverage']
    q = c.get('queries', {})
    nq = q.get('z3', {}).get('queries', 0) + q.get('cvc5_fp', {}).get('queries', 0)
    rows.append('| %s | %s | %d | %s | %s | %s | %s | %s | %s |' % (e['property_id'], e['tier'], len(c.get('harnesses', [])), c.get('states'), c.get('transitions'), nq, c.get('solver_time_s'), c.get('traces_validated_against_impl'), e.get('wall_s')))
th = ['| id | states | decisions | wall |', '|---|---|---|---|']
import re as _re
for line in open('/verif/tools/last_thorough_run.txt'):
    m = _re.match(r'property=(C\d+) tier=thorough states=(\d+) transitions=(\d+) .* wall=([\d.]+)s', line)
    if m:
        th.append('| %s | %s | %s | %s s |' % m.groups())
p1 = p1.replace('THOROUGHTABLE', '\n'.join(th))
p1 = p1.replace('NSEEDS', str(len(glob.glob('/verif/seeded/*/meta.json'))))
p1 = p1.replace('SEEDTABLE', table).replace('NFIX', nfix).replace('COSTTABLE', '\n'.join(rows))
p2 = open('/verif/tools/design_part2.md').read()
open('/verif/DESIGN.md', 'w').write(p1 + p2)
print('DESIGN.md written:', len((p1 + p2).splitlines()), 'lines;', nfix, 'fix commits')
