#!/bin/bash
# usage: seedsave.sh <property> <n>  -- stores confirmed seed <n> of /tmp/wt-<property> under /verif/seeded/<property>-<n>/
# (patch regenerated against /repo HEAD), runs the quick check against it and records which entries caught it.
set -u
P=$1; N=$2; TIER=${3:-quick}
WT=${WT:-/tmp/wt-$P}
D=/verif/seeded/$P-${SEEDNAME:-$N}
export GOFLAGS=-mod=mod GOPROXY=off GOSUMDB=off GOTOOLCHAIN=local
mkdir -p $D
cd /repo || exit 2
[ -n "$(git status --porcelain)" ] && { echo "/repo dirty"; exit 2; }
git apply --3way $WT/seed$N.diff 2>/dev/null || { echo "no apply"; git checkout -q -- .; git reset -q; exit 2; }
git reset -q
git diff > $D/patch.diff
git checkout -q -- .
cp $WT/seed${N}_demo_test.go $D/demo_test.go
cp $WT/seed$N.txt $D/description.txt
# plain apply of the stored patch, as the brief prescribes
git -C /repo apply $D/patch.diff || { echo "stored patch does not apply"; exit 2; }
go build ./... >/dev/null 2>&1
DIR=$(grep -m1 -o "copy into[: ]*[a-z/]*" $D/demo_test.go | sed 's/copy into[: ]*//;s#/$##')
go test -count=1 ./cache/ ./client/ ./server/ ./database/... ./updates/ ./ovsdb/ ./mapper/ ./model/ > /tmp/seedsave_tests.txt 2>&1; T=$?
cp $D/demo_test.go $DIR/zz_seed_demo_test.go
go test -count=1 -run Seed ./$DIR/ > /tmp/seedsave_demo.txt 2>&1; W=$?
rm -f $DIR/zz_seed_demo_test.go
cd /verif && timeout 3000 ./check $P --tier $TIER > /tmp/seedsave_check.txt 2>&1; C=$?
git -C /repo checkout -q -- .
cd /repo && cp $D/demo_test.go $DIR/zz_seed_demo_test.go && go test -count=1 -run Seed ./$DIR/ > /tmp/seedsave_demo0.txt 2>&1; WO=$?
rm -f $DIR/zz_seed_demo_test.go
python3 - "$P" "$N" "$D" "$T" "$W" "$WO" "$C" "$DIR" "$TIER" <<'PY'
import sys,json,re,subprocess
P,N,D,T,W,WO,C,DIR,TIER=sys.argv[1:]
txt=open('/tmp/seedsave_check.txt').read()
caught=[]
for m in re.finditer(r'key="([^"]*)" harness=(\S+)',txt):
    caught.append({"entry":m.group(2),"failure":m.group(1)})
desc=open(D+'/description.txt').read()
needs=""
m=re.search(r'What is needed[^\n]*\n(.*?)(\n\S|\Z)',desc,re.S)
if m: needs=" ".join(m.group(1).split())
head=subprocess.run(['git','-C','/repo','rev-parse','--short','HEAD'],capture_output=True,text=True).stdout.strip()
import os
lines=[l.strip() for l in desc.splitlines() if l.strip()]
first=re.sub(r'^[#*\s]*[Ss]eed\s*\d+\s*[:—-]*\s*','',lines[0]).strip(' *#') if lines else ''
if len(first)<25 and len(lines)>1: first=(first+' — '+lines[1]).strip(' —')
meta={"property":P,"seed":int(N),"summary":first[:170],"first_run":os.environ.get("FIRST","?"),"origin":"fresh sub-agent given only the property text and a scratch worktree","repo_head":head,
 "files_changed":re.findall(r'^\+\+\+ b/(\S+)',open(D+'/patch.diff').read(),re.M),
 "needs_to_manifest":needs,
 "what_i_ran":{
   "apply":"git -C /repo apply /verif/seeded/%s-%s/patch.diff"%(P,N),
   "existing_tests":"go test -count=1 ./cache/ ./client/ ./server/ ./database/... ./updates/ ./ovsdb/ ./mapper/ ./model/ -> exit %s"%T,
   "demonstration":"demo_test.go copied into %s/ ; go test -run Seed -> exit %s with the patch, exit %s without"%(DIR,W,WO),
   "check":"/verif/check %s --tier %s -> exit %s"%(P,TIER,C)},
 "caught":C=="1","caught_by":caught}
json.dump(meta,open(D+'/meta.json','w'),indent=1)
print(P,N,"tests",T,"demo",W,WO,"check",C,[c['entry'].split('.')[-1] for c in caught])
PY
