#!/usr/bin/env python3
"""Regenerates /verif/MANIFEST.json from tools/manifest_props.json (claimed checks + not_applicable reasons)."""
import json, os
here = os.path.dirname(os.path.abspath(__file__))
root = os.path.dirname(here)
props = json.load(open(os.path.join(here, "manifest_props.json")))
ids = [json.loads(l)["id"] for l in open(os.path.join(root, "properties.jsonl"))]
checks, na = [], []
for pid in ids:
    p = props.get(pid, {})
    if p.get("claimed"):
        c = {
            "property_id": pid,
            "quick_cmd": f"./check {pid} --tier quick",
            "thorough_cmd": f"./check {pid} --tier thorough",
            "evidence_file": f"evidence/{pid}.json",
            "replay_cmd_template": f"./check {pid} --replay {{path}}",
            "engine": "gosym",
            "level_claimed": {"category": p["category"], "text": p["text"], "design_ref": p.get("design_ref", "DESIGN.md Part I (I.3 bounds, I.4 findings) and Part II §4 " + pid)},
            "level_note": p["note"],
            "technique": p.get("technique", "bounded symbolic execution of the real code's go/ssa form; every branch, map-key alias and assertion decided by an SMT solver (z3; cvc5 for FP arithmetic); counterexamples replayed natively"),
        }
        checks.append(c)
    else:
        na.append({"property_id": pid, "reason": p.get("reason", "harness not built yet in this session; no claim made")})
m = {
    "version": 1,
    "setup_cmd": "cd /verif/engine && GOFLAGS=-mod=mod GOPROXY=off GOSUMDB=off GOTOOLCHAIN=local go build -o ../bin/gosym ./cmd/gosym",
    "hooks": {
        "guard": "verif",
        "enable": "no hooks in /repo: harnesses and the verifrt package are injected as overlays (go/packages Overlay for the executor, go test -overlay for native replay)",
        "baseline_off_cmd": "cd /repo && go test -vet=off -count=1 -timeout 25m ./...",
        "source_commits": [],
        "add_only": True,
    },
    "engines": [{
        "name": "gosym", "path": "engine/",
        "serves_properties": [c["property_id"] for c in checks],
        "kind_free_text": "bounded symbolic executor for Go over go/ssa (x/tools v0.29.0) with SMT back ends z3 4.8.12 and cvc5 1.0; encoding regenerated from /repo's working tree on every run",
    }],
    "checks": checks,
    "not_applicable": na,
    "notes": "All checks decide their property by solver queries over symbolic execution of the real SSA; bounds and what lies outside them are in each evidence file and in DESIGN.md.",
}
json.dump(m, open(os.path.join(root, "MANIFEST.json"), "w"), indent=1)
print("claimed:", [c["property_id"] for c in checks])
