#!/bin/bash
# usage: seedeval.sh <property> <n> [tier]   -- confirms seed <n> of /tmp/wt-<property> and runs the check against it
set -u
P=$1; N=$2; TIER=${3:-quick}
WT=${WT:-/tmp/wt-$P}
export GOFLAGS=-mod=mod GOPROXY=off GOSUMDB=off GOTOOLCHAIN=local
PKGS="./cache/ ./client/ ./server/ ./database/... ./updates/ ./ovsdb/ ./mapper/ ./model/"
cd $WT || exit 2
git checkout -q -- . 2>/dev/null
DEMO=$WT/seed${N}_demo_test.go
DIR=$(grep -m1 -o "copy into[: ]*[a-z/]*" $DEMO | sed 's/copy into[: ]*//;s#/$##')
[ -z "$DIR" ] && { echo "no dir in demo"; exit 2; }
echo "== $P seed$N demo dir=$DIR"
git apply seed$N.diff || { echo "PATCH-DOES-NOT-APPLY (worktree)"; exit 2; }
go build $PKGS || { echo "BUILD-FAILS"; git checkout -q -- .; exit 2; }
go test -count=1 $PKGS 2>&1 | grep -v "^ok\|no test files" | head -5
cp $DEMO $DIR/zz_seed_demo_test.go
go test -count=1 -run 'Seed' ./$DIR/ > /tmp/seed_with.txt 2>&1; W=$?
git checkout -q -- .
go test -count=1 -run 'Seed' ./$DIR/ > /tmp/seed_without.txt 2>&1; WO=$?
rm -f $DIR/zz_seed_demo_test.go
echo "demo with patch exit=$W (want 1), without exit=$WO (want 0)"
if [ $W -eq 0 ] || [ $WO -ne 0 ]; then echo "SEED-NOT-CONFIRMED"; tail -5 /tmp/seed_with.txt /tmp/seed_without.txt; exit 3; fi
# run the check against /repo with the patch
cd ${REPO:-/repo} && git apply --3way $WT/seed$N.diff 2>/tmp/seed_apply.txt || { echo "PATCH-DOES-NOT-APPLY (/repo HEAD)"; cat /tmp/seed_apply.txt | head -5; git checkout -q -- .; git reset -q; exit 4; }
git reset -q
cd /verif && timeout 3000 ./check $P --tier $TIER --repo ${REPO:-/repo} > /tmp/seed_check.txt 2>&1; C=$?
cd ${REPO:-/repo} && git checkout -q -- . 
echo "check exit=$C"; grep -E "^VIOLATION|key=|^property=|UNCONF|ENGINE|INCONCL" /tmp/seed_check.txt | cut -c1-220 | head -12
