#!/usr/bin/env python3
"""Prints the markdown table of seeded changes from /verif/seeded/*/meta.json."""
import json, glob, os
rows = []
for d in sorted(glob.glob('/verif/seeded/*')):
    mp = os.path.join(d, 'meta.json')
    if not os.path.exists(mp):
        continue
    m = json.load(open(mp))
    ents = sorted({c['entry'].split('.')[-1].replace('Verif', '') for c in m.get('caught_by', [])})
    files = ', '.join(os.path.basename(f) for f in m.get('files_changed', []))
    first = m.get('first_run', '?')
    caught = 'yes' if m.get('caught') else 'NO'
    if m.get('caught_by_check'):
        caught += ' (%s)' % m['caught_by_check']
    rows.append((os.path.basename(d), files, first, caught, ', '.join(ents[:4]) + (' …' if len(ents) > 4 else ''), m.get('summary', '')))
print('| seed | file(s) changed | what it is | first run | now caught | entries that fire |')
print('|---|---|---|---|---|---|')
for r in rows:
    print('| %s | %s | %s | %s | %s | %s |' % (r[0], r[1], r[5], r[2], r[3], r[4]))
