// Package c20: the package the model generator of the current tree produced for the corpus schema
// (zzverif/c20gen, written by the check's generation step) validates against its schema, and its generated copy
// and equality methods agree with the generic ones. Overlay-only harness package, assembled at check time.
package c20

import (
	"reflect"

	"github.com/ovn-org/libovsdb/model"
	rt "github.com/ovn-org/libovsdb/verifrt"
	gen "github.com/ovn-org/libovsdb/zzverif/c20gen"
)

// VerifC20Validates: NewDatabaseModel(schema, FullDatabaseModel()) accepts the generated models.
func VerifC20Validates() {
	cm, err := gen.FullDatabaseModel()
	rt.Assert(err == nil, "C20: the generated client model is well-formed")
	dbm, errs := model.NewDatabaseModel(gen.Schema(), cm)
	rt.Reach("ran")
	rt.Assert(len(errs) == 0, "C20: the generated models validate against the schema they were generated from")
	rt.Assert(dbm.Valid(), "C20: the database model built from the generated models is valid")
	for _, t := range []string{"Bridge", "Logical_Switch_Port", "ACL", "DNS", "Meter_Band", "NB_Global", "SSL", "QoS"} {
		m, err := dbm.NewModel(t)
		rt.Assert(err == nil && m != nil, "C20: every table of the schema has a generated model")
	}
}

func symStrs(max int) []string {
	switch rt.Choose(max + 2) {
	case 0:
		return nil
	case 1:
		return []string{}
	case 2:
		return []string{rt.String()}
	default:
		return []string{rt.String(), rt.String()}
	}
}

func symInts(max int) []int {
	switch rt.Choose(max + 2) {
	case 0:
		return nil
	case 1:
		return []int{}
	case 2:
		return []int{rt.Int()}
	default:
		return []int{rt.Int(), rt.Int()}
	}
}

func symSS(max int) map[string]string {
	switch rt.Choose(max + 2) {
	case 0:
		return nil
	case 1:
		return map[string]string{}
	case 2:
		return map[string]string{rt.String(): rt.String()}
	default:
		k1, k2 := rt.String(), rt.String()
		rt.Assume(k1 != k2)
		return map[string]string{k1: rt.String(), k2: rt.String()}
	}
}

func symSI(max int) map[string]int {
	switch rt.Choose(max + 2) {
	case 0:
		return nil
	case 1:
		return map[string]int{}
	case 2:
		return map[string]int{rt.String(): rt.Int()}
	default:
		k1, k2 := rt.String(), rt.String()
		rt.Assume(k1 != k2)
		return map[string]int{k1: rt.Int(), k2: rt.Int()}
	}
}

func symIS(max int) map[int]string {
	switch rt.Choose(max + 2) {
	case 0:
		return nil
	case 1:
		return map[int]string{}
	case 2:
		return map[int]string{rt.Int(): rt.String()}
	default:
		k1, k2 := rt.Int(), rt.Int()
		rt.Assume(k1 != k2)
		return map[int]string{k1: rt.String(), k2: rt.String()}
	}
}

func optS() *string {
	if rt.Choose(2) == 0 {
		return nil
	}
	v := rt.String()
	return &v
}

func optI() *int {
	if rt.Choose(2) == 0 {
		return nil
	}
	v := rt.Int()
	return &v
}

func optB() *bool {
	if rt.Choose(2) == 0 {
		return nil
	}
	v := rt.Bool()
	return &v
}

// symBridge gives the fields of group g symbolic values (collections of up to max elements, nil and empty both
// occur); the other fields stay at their zero value.
func symBridge(g, max int) *gen.Bridge {
	b := &gen.Bridge{}
	switch g {
	case 0: // scalars
		b.UUID, b.Name, b.Peer, b.Mode = rt.String(), rt.String(), rt.String(), rt.String()
		b.Num, b.Flag = rt.Int(), rt.Bool()
		b.Ipv6Addr, b.Dhcpv4Options = rt.String(), rt.String()
	case 1: // optionals
		b.OptStr, b.OptInt, b.OptBool, b.OptRef, b.OptMode = optS(), optI(), optB(), optS(), optS()
	case 2:
		b.Strs = symStrs(max)
	case 3:
		b.Ints = symInts(max)
	case 4:
		b.Ports, b.Modes = symStrs(1), symStrs(1)
	case 5:
		b.ExternalIDs = symSS(max)
	case 6:
		b.Counters = symSI(max)
	case 7:
		b.ByNum = symIS(max)
	}
	return b
}

const nGroups = 8

// laws: copy is equal and shares nothing; generated equality is field-wise equality; the generic entry points
// (model.Clone, model.Equal) give the same answers.
func laws(max int) {
	g := rt.Choose(nGroups)
	a := symBridge(g, max)
	c := a.DeepCopy()
	rt.Reach("ran")
	rt.Assert(a.Equals(c) && c.Equals(a), "C20: a generated deep copy equals its original")
	rt.Assert(!rt.Shares(a, c), "C20: a generated deep copy shares no memory with its original")
	rt.Assert(reflect.DeepEqual(a, c), "C20: a generated deep copy has the same value in every field")
	mc := model.Clone(a)
	rt.Assert(model.Equal(a, mc) && !rt.Shares(a, mc), "C20: model.Clone of a generated model is an equal copy sharing nothing")
	b := symBridge(g, max)
	want := reflect.DeepEqual(a, b)
	rt.Assert(a.Equals(b) == want, "C20: generated Equals holds exactly when all fields are equal")
	rt.Assert(b.Equals(a) == want, "C20: generated Equals is symmetric")
	rt.Assert(model.Equal(a, b) == want, "C20: model.Equal on generated models holds exactly when all fields are equal")
}

func VerifC20Laws1() { laws(1) }
func VerifC20Laws2() { laws(2) }

// VerifC20Ratio: the real-valued fields (kept apart: floating-point queries).
func VerifC20Ratio() {
	a := &gen.Bridge{Ratio: rt.Float64()}
	if rt.Choose(2) == 1 {
		v := rt.Float64()
		a.OptReal = &v
	}
	rt.Assume(a.Ratio == a.Ratio && (a.OptReal == nil || *a.OptReal == *a.OptReal)) // NaN never equals itself, in either notion
	c := a.DeepCopy()
	rt.Reach("ran")
	rt.Assert(a.Equals(c) && !rt.Shares(a, c), "C20: a generated deep copy of real-valued fields is an equal copy sharing nothing")
}
