package main

import (
	"runtime/debug"
	"runtime/pprof"
	"encoding/json"
	"flag"
	"fmt"
	"os"
	"runtime"
	"sort"
	"strings"
	"time"

	"verif/engine/gosym"
)

func main() {
	if os.Getenv("GOGC") == "" {
		debug.SetGCPercent(1000)
	}
	if len(os.Args) < 2 {
		fmt.Fprintln(os.Stderr, "usage: gosym run|check ...")
		os.Exit(2)
	}
	switch os.Args[1] {
	case "run":
		cmdRun(os.Args[2:])
	case "check":
		cmdCheck(os.Args[2:])
	default:
		fmt.Fprintln(os.Stderr, "unknown subcommand", os.Args[1])
		os.Exit(2)
	}
}

// cmdRun explores named harness entries and prints a summary (development tool).
func cmdRun(args []string) {
	fs := flag.NewFlagSet("run", flag.ExitOnError)
	repo := fs.String("repo", "/repo", "repository")
	hdir := fs.String("harness", "/verif/harness", "harness overlay directory")
	entries := fs.String("entry", "", "comma-separated harness entry functions (pkg.Func)")
	workers := fs.Int("workers", runtime.NumCPU(), "workers")
	maxSteps := fs.Int("max-steps", 2000000, "per-path instruction budget")
	maxPaths := fs.Int("max-paths", 0, "path budget (0 = unlimited)")
	budget := fs.Duration("budget", 0, "wall budget")
	solverMs := fs.Int("solver-ms", 10000, "per-query solver timeout")
	order := fs.String("order-sites", "", "comma-separated functions whose map iteration order is a decision")
	verbose := fs.Bool("v", false, "verbose")
	cpuprof := fs.String("cpuprofile", "", "write cpu profile")
	fs.Parse(args)
	if *cpuprof != "" {
		f, _ := os.Create(*cpuprof)
		pprof.StartCPUProfile(f)
		defer pprof.StopCPUProfile()
		runtime.SetMutexProfileFraction(5)
		runtime.SetBlockProfileRate(100000)
		defer func() {
			mf, _ := os.Create(*cpuprof + ".mutex")
			pprof.Lookup("mutex").WriteTo(mf, 0)
			mf.Close()
			bf, _ := os.Create(*cpuprof + ".block")
			pprof.Lookup("block").WriteTo(bf, 0)
			bf.Close()
		}()
	}
	t0 := time.Now()
	p, err := gosym.Load(gosym.LoadOptions{Repo: *repo, HarnessDir: *hdir})
	if err != nil {
		fmt.Fprintln(os.Stderr, err)
		os.Exit(3)
	}
	fmt.Fprintf(os.Stderr, "loaded in %.1fs\n", time.Since(t0).Seconds())
	cfg := &gosym.Config{Workers: *workers, MaxSteps: *maxSteps, MaxPaths: *maxPaths, Budget: *budget, SolverMs: *solverMs, Samples: 3, Verbose: *verbose, RecursiveRLock: os.Getenv("GOSYM_RRLOCK") != ""}
	if *order != "" {
		cfg.OrderSites = strings.Split(*order, ",")
	}
	for _, e := range strings.Split(*entries, ",") {
		fn := p.Func(e)
		if fn == nil {
			fmt.Fprintln(os.Stderr, "no such entry:", e)
			os.Exit(3)
		}
		rep := p.Explore(fn, cfg)
		printReport(rep)
	}
}

func printReport(rep *gosym.Report) {
	fmt.Printf("== %s: paths=%d completed=%d aborted=%d incomplete=%d assume-pruned=%d infeasible=%d decisions=%d feasQ=%d assertQ=%d instrs=%d wall=%.1fs solver=%.1fs(q=%d sat=%d unsat=%d unk=%d err=%d) fp=%.1fs(q=%d) budgetHit=%v\n",
		rep.Harness, rep.Paths, rep.Completed, rep.Aborted, rep.Incomplete, rep.AssumePruned, rep.Infeasible, rep.Decisions, rep.FeasQ, rep.AssertQ, rep.Instrs,
		rep.Wall.Seconds(), rep.Solver.Time.Seconds(), rep.Solver.Queries, rep.Solver.Sat, rep.Solver.Unsat, rep.Solver.Unknown, rep.Solver.Errors,
		rep.FPSolver.Time.Seconds(), rep.FPSolver.Queries, rep.BudgetHit)
	keys := func(m map[string]int) []string {
		var ks []string
		for k := range m {
			ks = append(ks, k)
		}
		sort.Strings(ks)
		return ks
	}
	for _, k := range keys(rep.Unsupported) {
		fmt.Printf("   unsupported x%d: %s\n", rep.Unsupported[k], k)
	}
	for _, k := range keys(rep.IncompleteBy) {
		fmt.Printf("   incomplete x%d: %s\n", rep.IncompleteBy[k], k)
	}
	for _, k := range keys(rep.Reach) {
		fmt.Printf("   reach %s: %d\n", k, rep.Reach[k])
	}
	for _, k := range keys(rep.FailCount) {
		f := rep.Failures[k]
		fmt.Printf("   FAIL x%d: %s\n      site=%s msg=%s\n      model: %s\n", rep.FailCount[k], k, f.Site, f.Msg, f.Model)
		if len(f.Stack) > 0 {
			fmt.Printf("      stack: %s\n", strings.Join(f.Stack, " <- "))
		}
		fmt.Printf("      observe: %v\n", f.Observe)
		b, _ := json.Marshal(f.Nondet)
		fmt.Printf("      nondet: %s\n", b)
	}
	if gosym.LastSolverError != "" {
		fmt.Printf("   last solver error: %s\n", gosym.LastSolverError)
	}
}
