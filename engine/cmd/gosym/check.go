package main

import (
	"crypto/sha1"
	"encoding/json"
	"flag"
	"fmt"
	"os"
	"path/filepath"
	"runtime"
	"sort"
	"strconv"
	"strings"
	"time"

	"verif/engine/gosym"
)

type entrySpec struct {
	Entry      string   `json:"entry"`
	OrderSites []string `json:"order_sites,omitempty"`
	MaxSteps   int      `json:"max_steps,omitempty"`
	MaxPaths   int      `json:"max_paths,omitempty"`
	BudgetS    int      `json:"budget_s,omitempty"`
	Reach      []string `json:"reach,omitempty"`
	Bound      string   `json:"bound,omitempty"`
}

type tierSpec struct {
	Entries []entrySpec `json:"entries"`
}

type propSpec struct {
	Level       string   `json:"level"`
	Explanation string   `json:"explanation,omitempty"`
	Bounds      string   `json:"bounds"`
	Outside     []string `json:"outside,omitempty"`
	Assumptions []string `json:"assumptions,omitempty"`
	Pregen      string   `json:"pregen,omitempty"`
	Quick       tierSpec `json:"quick"`
	Thorough    tierSpec `json:"thorough"`
}

type knownFinding struct {
	Property string `json:"property"`
	Key      string `json:"key"`
	What     string `json:"what"`
	Status   string `json:"status"` // known | fixed
	Commit   string `json:"commit,omitempty"`
}

func cmdCheck(args []string) {
	fs := flag.NewFlagSet("check", flag.ExitOnError)
	repo := fs.String("repo", "/repo", "repository")
	vdir := fs.String("verif", "/verif", "verif directory")
	tier := fs.String("tier", "", "quick|thorough (default $VERIF_TIER or quick)")
	workers := fs.Int("workers", runtime.NumCPU(), "workers")
	noReplay := fs.Bool("no-replay", false, "skip native replay (development only)")
	replayOnly := fs.String("replay", "", "replay a stored counterexample file natively and exit")
	fs.Parse(args)
	if fs.NArg() != 1 {
		fmt.Fprintln(os.Stderr, "usage: gosym check [flags] <property>")
		os.Exit(2)
	}
	prop := fs.Arg(0)
	if *tier == "" {
		*tier = os.Getenv("VERIF_TIER")
	}
	if *tier == "" {
		*tier = "quick"
	}
	seed, _ := strconv.ParseInt(os.Getenv("VERIF_SEED"), 10, 64)
	hdir := filepath.Join(*vdir, "harness")

	var registry map[string]*propSpec
	data, err := os.ReadFile(filepath.Join(hdir, "registry.json"))
	if err != nil {
		fatal(err)
	}
	if err := json.Unmarshal(data, &registry); err != nil {
		fatal(fmt.Errorf("registry.json: %v", err))
	}
	spec := registry[prop]
	if spec == nil {
		fatal(fmt.Errorf("property %s not in registry", prop))
	}
	var known []knownFinding
	if kd, err := os.ReadFile(filepath.Join(*vdir, "known_findings.json")); err == nil {
		if err := json.Unmarshal(kd, &known); err != nil {
			fatal(fmt.Errorf("known_findings.json: %v", err))
		}
	}
	var allEntries []string
	for _, ps := range registry {
		for _, e := range append(append([]entrySpec{}, ps.Quick.Entries...), ps.Thorough.Entries...) {
			allEntries = append(allEntries, e.Entry)
		}
	}
	scratch := fmt.Sprintf("/dev/shm/verif-replay-%d", os.Getpid())
	if _, err := os.Stat("/dev/shm"); err != nil {
		scratch = filepath.Join(os.TempDir(), fmt.Sprintf("verif-replay-%d", os.Getpid()))
	}
	var genFinds []genFinding
	var genInfo map[string]interface{}
	if spec.Pregen == "modelgen" && *replayOnly == "" || spec.Pregen == "modelgen" && *replayOnly != "" {
		var err error
		hdir, genFinds, genInfo, err = pregenModelgen(*repo, *vdir, scratch+"-gen")
		defer os.RemoveAll(scratch + "-gen")
		if err != nil {
			fatal(err)
		}
		allEntries = nil
		for _, e := range append(append([]entrySpec{}, spec.Quick.Entries...), spec.Thorough.Entries...) {
			allEntries = append(allEntries, e.Entry)
		}
	}
	rp := &gosym.Replayer{Repo: *repo, HarnessDir: hdir, Scratch: scratch, Entries: dedup(allEntries)}
	defer rp.Cleanup()

	if *replayOnly != "" {
		var rf gosym.ReplayFile
		d, err := os.ReadFile(*replayOnly)
		if err != nil {
			fatal(err)
		}
		json.Unmarshal(d, &rf)
		rp.RWInstrument = strings.Contains(rf.Key, "recursive read lock")
		res := rp.Run(rf.Harness, rf.Nondet, *replayOnly)
		fmt.Print(res.Output)
		if res.Err != nil {
			fmt.Println("REPLAY-ERROR:", res.Err)
			rp.Cleanup()
			os.Exit(2)
		}
		if res.Failed {
			fmt.Printf("VIOLATION property=%s replay=%s\n", rf.Property, *replayOnly)
			rp.Cleanup()
			os.Exit(1)
		}
		fmt.Println("replay passed")
		return
	}

	ts := spec.Quick
	if *tier == "thorough" && len(spec.Thorough.Entries) > 0 {
		ts = spec.Thorough
	}
	start := time.Now()
	p, err := gosym.Load(gosym.LoadOptions{Repo: *repo, HarnessDir: hdir})
	if err != nil {
		if be, ok := err.(*gosym.BuildError); ok && spec.Pregen != "" && strings.Contains(be.Error(), "c20gen") {
			genFinds = append(genFinds, genFinding{"gen:the generated code does not compile", "C20: the generated code does not compile", be.Error()})
			reportGen(prop, *vdir, genFinds, known)
			os.RemoveAll(scratch + "-gen")
			os.Exit(1)
		}
		if be, ok := err.(*gosym.BuildError); ok {
			fmt.Printf("INCONCLUSIVE property=%s: /repo with harness overlays does not type-check:\n%s\n", prop, be.Error())
			os.Exit(0)
		}
		fatal(err)
	}
	loadS := time.Since(start).Seconds()

	type agg struct {
		states, transitions, completed, aborted, incomplete, assumePruned, infeasible int
		feasQ, assertQ                                                                int
		solver, fp                                                                    gosym.SolverStats
		unsupported, incompleteBy                                                     map[string]int
		reach                                                                         map[string]int
		cover                                                                         map[string]int
		samples                                                                       []interface{}
		budgetHit                                                                     bool
		instrs                                                                        int64
	}
	A := agg{unsupported: map[string]int{}, incompleteBy: map[string]int{}, reach: map[string]int{}, cover: map[string]int{}}
	type found struct {
		entry string
		f     *gosym.Failure
		count int
		alts  []*gosym.Failure
	}
	var fails []found
	var perEntry []map[string]interface{}
	engineErr := ""
	tracesValidated, tracesMismatch := 0, 0
	for _, es := range ts.Entries {
		fn := p.Func(es.Entry)
		if fn == nil {
			fatal(fmt.Errorf("no such harness entry %s", es.Entry))
		}
		cfg := &gosym.Config{Workers: *workers, MaxSteps: es.MaxSteps, MaxPaths: es.MaxPaths, SolverMs: 10000, Seed: seed, Samples: 4, OrderSites: es.OrderSites, Tier: *tier, RecursiveRLock: os.Getenv("GOSYM_RRLOCK") != "0"}
		if cfg.MaxSteps == 0 {
			cfg.MaxSteps = 3000000
		}
		if es.BudgetS > 0 {
			cfg.Budget = time.Duration(es.BudgetS) * time.Second
		}
		rep := p.Explore(fn, cfg)
		A.states += rep.Completed
		A.transitions += rep.Decisions
		A.completed += rep.Completed
		A.aborted += rep.Aborted
		A.incomplete += rep.Incomplete
		A.assumePruned += rep.AssumePruned
		A.infeasible += rep.Infeasible
		A.feasQ += rep.FeasQ
		A.assertQ += rep.AssertQ
		A.instrs += rep.Instrs
		addStats(&A.solver, &rep.Solver)
		addStats(&A.fp, &rep.FPSolver)
		A.budgetHit = A.budgetHit || rep.BudgetHit
		for k, v := range rep.Unsupported {
			A.unsupported[k] += v
		}
		for k, v := range rep.IncompleteBy {
			A.incompleteBy[k] += v
		}
		for k, v := range rep.Reach {
			A.reach[es.Entry+":"+k] += v
		}
		for k, v := range rep.Cover {
			A.cover[k] += v
		}
		need := es.Reach
		if len(need) == 0 && len(rep.Reach) == 0 {
			engineErr = fmt.Sprintf("harness %s reached no Reach label on any path (vacuous)", es.Entry)
		}
		for _, l := range need {
			if rep.Reach[l] == 0 {
				engineErr = fmt.Sprintf("harness %s never reached label %q (vacuous)", es.Entry, l)
			}
		}
		for i, s := range rep.Samples {
			if i < 2 {
				A.samples = append(A.samples, map[string]interface{}{"harness": es.Entry, "decisions": s.Path, "nondet": s.Nondet, "path_condition": s.PC, "observe": s.Observe})
			}
			if !*noReplay && !sampleHasSched(s) {
				res := rp.Run(es.Entry, s.Nondet, "")
				if res.Err != nil {
					fmt.Printf("SELFCHECK-ERROR property=%s harness=%s: %v\n", prop, es.Entry, res.Err)
					tracesMismatch++
					if strings.Contains(res.Err.Error(), "native build") {
						engineErr = fmt.Sprintf("harness %s does not build natively for replay", es.Entry)
					}
				} else if res.Failed || !sameObs(res.Observed, s.Observe) {
					fmt.Printf("SELFCHECK-MISMATCH property=%s harness=%s native_failed=%v detail=%q native_obs=%v exec_obs=%v\n", prop, es.Entry, res.Failed, res.Detail, res.Observed, s.Observe)
					tracesMismatch++
				} else {
					tracesValidated++
				}
			}
		}
		keys := make([]string, 0, len(rep.Failures))
		for k := range rep.Failures {
			keys = append(keys, k)
		}
		sort.Strings(keys)
		for _, k := range keys {
			fails = append(fails, found{es.Entry, rep.Failures[k], rep.FailCount[k], rep.FailAlts[k]})
		}
		perEntry = append(perEntry, map[string]interface{}{"entry": es.Entry, "bound": es.Bound, "paths": rep.Paths, "completed": rep.Completed,
			"incomplete": rep.Incomplete, "unsupported": rep.Aborted, "assume_pruned": rep.AssumePruned, "decisions": rep.Decisions,
			"wall_s": round(rep.Wall.Seconds()), "budget_hit": rep.BudgetHit, "failure_keys": keys})
	}

	// classify failures
	violations := 0
	var knownHit, unconfirmed, violationLines []string
	os.MkdirAll(filepath.Join(*vdir, "replays", prop), 0o755)
	seenKey := map[string]bool{}
	for _, fd := range fails {
		f := fd.f
		if seenKey[f.Key] {
			continue
		}
		seenKey[f.Key] = true
		h := sha1.Sum([]byte(f.Key))
		rpath := filepath.Join(*vdir, "replays", prop, fmt.Sprintf("%x.json", h[:6]))
		rf := gosym.ReplayFile{Property: prop, Harness: fd.entry, Tier: *tier, Key: f.Key, Kind: f.Kind, Msg: f.Msg, Site: f.Site, Stack: f.Stack,
			Path: f.Path, Nondet: f.Nondet, Observe: f.Observe, Model: f.Model}
		if f.Sched {
			rf.Note = "path depends on a map-iteration-order or select decision the native runtime cannot be forced into; replay is repeated"
		}
		b, _ := json.MarshalIndent(rf, "", " ")
		os.WriteFile(rpath, b, 0o644)
		confirmed := false
		detail := ""
		// a recursive read lock only blocks when a writer arrives in between: the native run confirms it with an
		// instrumented RWMutex (verifrt.RWMutex) instead of waiting for that writer
		rp.RWInstrument = strings.Contains(f.Key, "recursive read lock")
		if *noReplay {
			confirmed = true
		} else if f.Kind == "deadlock" || f.Kind == "lock" {
			// lock-discipline failures are facts about the lock model on a single logical thread; natively they
			// show as a hang or a fatal error, which the replay treats as failure (process died / timeout)
			res := rp.Run(fd.entry, f.Nondet, rpath)
			confirmed = res.Err == nil && res.Failed
			detail = res.Detail
			if res.Err != nil {
				detail = res.Err.Error()
			}
		} else {
			tries := 1
			if f.Sched {
				tries = 40
			}
			for i := 0; i < tries && !confirmed; i++ {
				res := rp.Run(fd.entry, f.Nondet, rpath)
				if res.Err != nil {
					detail = res.Err.Error()
					break
				}
				detail = res.Detail
				confirmed = res.Failed
			}
			// the first counterexample of this kind did not reproduce: try the ones found on other paths (the
			// first may owe its existence to a modelling artefact while the others are real)
			for _, alt := range fd.alts {
				if confirmed || f.Sched {
					break
				}
				apath := strings.TrimSuffix(rpath, ".json") + "-alt.json"
				af := rf
				af.Path, af.Nondet, af.Observe, af.Model = alt.Path, alt.Nondet, alt.Observe, alt.Model
				ab, _ := json.MarshalIndent(af, "", " ")
				os.WriteFile(apath, ab, 0o644)
				res := rp.Run(fd.entry, alt.Nondet, apath)
				if res.Err == nil && res.Failed {
					confirmed = true
					detail = res.Detail
					rpath = apath
				} else {
					os.Remove(apath)
				}
			}
		}
		var kf *knownFinding
		for i := range known {
			if known[i].Property == prop && known[i].Key == f.Key && known[i].Status == "known" {
				kf = &known[i]
			}
		}
		switch {
		case !confirmed:
			unconfirmed = append(unconfirmed, f.Key)
			fmt.Printf("UNCONFIRMED property=%s key=%q harness=%s native=%q replay=%s\n", prop, f.Key, fd.entry, detail, rpath)
		case kf != nil:
			knownHit = append(knownHit, f.Key)
			fmt.Printf("KNOWN-FINDING: property=%s %s [key=%s]\n", prop, kf.What, f.Key)
		default:
			violations++
			line := fmt.Sprintf("VIOLATION property=%s replay=%s", prop, rpath)
			violationLines = append(violationLines, line)
			fmt.Printf("%s\n   key=%q harness=%s paths=%d\n   %s at %s\n   native: %s\n", line, f.Key, fd.entry, fd.count, f.Msg, f.Site, detail)
		}
	}

	gv, gk := reportGen(prop, *vdir, genFinds, known)
	violations += gv
	knownHit = append(knownHit, gk...)

	// evidence
	complete := A.aborted == 0 && A.incomplete == 0 && !A.budgetHit
	fnames := make([]string, 0, len(A.cover))
	for k := range A.cover {
		fnames = append(fnames, k)
	}
	sort.Strings(fnames)
	counts := p.InstrCounts(A.cover)
	var encoded []string
	for _, k := range fnames {
		if c, ok := counts[k]; ok {
			encoded = append(encoded, fmt.Sprintf("%s (%d instrs, %d calls)", strings.TrimPrefix(k, gosym.ModulePath+"/"), c, A.cover[k]))
		} else {
			encoded = append(encoded, fmt.Sprintf("%s (%d calls)", strings.TrimPrefix(k, gosym.ModulePath+"/"), A.cover[k]))
		}
	}
	cov := map[string]interface{}{
		"states":                        A.states,
		"transitions":                   A.transitions,
		"traces_validated_against_impl": tracesValidated,
		"traces_mismatch":               tracesMismatch,
		"samples":                       A.samples,
		"exhaustive":                    complete,
		"complete_within_bounds":        complete,
		"bounds":                        spec.Bounds,
		"outside_the_claim":             spec.Outside,
		"harnesses":                     perEntry,
		"functions_encoded":             encoded,
		"ssa_instructions_executed":     A.instrs,
		"queries": map[string]interface{}{"feasibility": A.feasQ, "assertion": A.assertQ, "z3": statMap(A.solver), "cvc5_fp": statMap(A.fp)},
		"solver_time_s":                 round(A.solver.Time.Seconds() + A.fp.Time.Seconds()),
		"load_and_ssa_build_s":          round(loadS),
		"incomplete_paths":              A.incomplete,
		"incomplete_reasons":            A.incompleteBy,
		"unsupported_paths":             A.aborted,
		"unsupported":                   A.unsupported,
		"assume_pruned":                 A.assumePruned,
		"reach":                         A.reach,
		"known_findings_hit":            knownHit,
		"unconfirmed":                   unconfirmed,
		"rule":                          "one state = one completed path-condition class of a harness entry (all values of the symbolic leaves satisfying it); one transition = one solver-decided decision point",
	}
	for k, v := range genInfo {
		cov[k] = v
	}
	if len(A.samples) == 0 {
		cov["samples"] = []interface{}{map[string]interface{}{"note": "no completed path"}}
	}
	level := spec.Level
	if level == "" {
		level = "model_checking"
	}
	if spec.Explanation != "" {
		cov["explanation"] = spec.Explanation
	}
	if level == "translation_validation" {
		cov["programs"] = len(ts.Entries)
		cov["disagreements_checked"] = A.assertQ + A.states
	}
	ev := map[string]interface{}{
		"property_id": prop,
		"tier":        *tier,
		"seed":        seed,
		"level":       level,
		"coverage":    cov,
		"assumptions": spec.Assumptions,
		"wall_s":      round(time.Since(start).Seconds()),
		"violations":  violations,
	}
	os.MkdirAll(filepath.Join(*vdir, "evidence"), 0o755)
	eb, _ := json.MarshalIndent(ev, "", " ")
	if err := os.WriteFile(filepath.Join(*vdir, "evidence", prop+".json"), eb, 0o644); err != nil {
		fatal(err)
	}
	fmt.Printf("property=%s tier=%s states=%d transitions=%d incomplete=%d unsupported=%d known=%d unconfirmed=%d violations=%d traces_validated=%d wall=%.1fs\n",
		prop, *tier, A.states, A.transitions, A.incomplete, A.aborted, len(knownHit), len(unconfirmed), violations, tracesValidated, time.Since(start).Seconds())
	for k, v := range A.unsupported {
		fmt.Printf("   unsupported x%d: %s\n", v, k)
	}
	for k, v := range A.incompleteBy {
		fmt.Printf("   incomplete x%d: %s\n", v, k)
	}
	rp.Cleanup()
	os.RemoveAll(scratch + "-gen")
	if violations > 0 {
		// a confirmed violation is the verdict even if, because of it, some entry never reached its label
		if engineErr != "" {
			fmt.Printf("NOTE property=%s %s\n", prop, engineErr)
		}
		os.Exit(1)
	}
	if engineErr != "" {
		fmt.Printf("ENGINE-ERROR property=%s %s\n", prop, engineErr)
		os.Exit(2)
	}
}

func sampleHasSched(s gosym.PathSample) bool { return s.Sched }

func sameObs(a, b []string) bool {
	if len(a) != len(b) {
		return false
	}
	for i := range a {
		if a[i] != b[i] {
			return false
		}
	}
	return true
}

func statMap(s gosym.SolverStats) map[string]interface{} {
	return map[string]interface{}{"queries": s.Queries, "sat": s.Sat, "unsat": s.Unsat, "unknown": s.Unknown, "errors": s.Errors, "time_s": round(s.Time.Seconds())}
}

func addStats(a, b *gosym.SolverStats) {
	a.Queries += b.Queries
	a.Sat += b.Sat
	a.Unsat += b.Unsat
	a.Unknown += b.Unknown
	a.Errors += b.Errors
	a.Time += b.Time
}

func round(f float64) float64 { return float64(int(f*100)) / 100 }

func dedup(s []string) []string {
	m := map[string]bool{}
	var out []string
	for _, x := range s {
		if !m[x] {
			m[x] = true
			out = append(out, x)
		}
	}
	return out
}

func fatal(err error) {
	fmt.Fprintln(os.Stderr, "gosym:", err)
	os.Exit(2)
}


func writeJSON(path string, v interface{}) {
	b, _ := json.MarshalIndent(v, "", " ")
	os.WriteFile(path, b, 0o644)
}

// reportGen prints what the generation step found: violations (with a replay file describing how to reproduce) or
// known findings.
func reportGen(prop, vdir string, finds []genFinding, known []knownFinding) (violations int, knownHit []string) {
	for _, g := range finds {
		var kf *knownFinding
		for i := range known {
			if known[i].Property == prop && known[i].Key == g.Key && known[i].Status == "known" {
				kf = &known[i]
			}
		}
		if kf != nil {
			knownHit = append(knownHit, g.Key)
			fmt.Printf("KNOWN-FINDING: property=%s %s [key=%s]\n", prop, kf.What, g.Key)
			continue
		}
		h := sha1.Sum([]byte(g.Key))
		rpath := filepath.Join(vdir, "replays", prop, fmt.Sprintf("%x.json", h[:6]))
		os.MkdirAll(filepath.Dir(rpath), 0o755)
		writeJSON(rpath, map[string]interface{}{"property": prop, "key": g.Key, "msg": g.Msg, "detail": g.Detail,
			"reproduce": "cd /repo && go run ./cmd/modelgen -extended -p c20gen -o <dir> /verif/harness-c20/corpus.ovsschema (or corpus-enums.ovsschema); compare two runs / go vet the output"})
		violations++
		fmt.Printf("VIOLATION property=%s replay=%s\n   key=%q\n   %s\n   %s\n", prop, rpath, g.Key, g.Msg, strings.ReplaceAll(g.Detail, "\n", "\n   "))
	}
	return
}
