package main

// Pre-generation step for C20: the model generator of /repo's current tree is run natively (text/template and
// go/format are outside the executor) on the corpus schemas; its output becomes a package of the harness tree, which
// the executor then loads and checks symbolically. The run-to-run comparison is a plain byte comparison.

import (
	"bytes"
	"context"
	"fmt"
	"os"
	osexec "os/exec"
	"path/filepath"
	"sort"
	"strings"
	"time"
)

type genFinding struct {
	Key    string
	Msg    string
	Detail string
}

func copyTree(src, dst string) error {
	return filepath.Walk(src, func(path string, info os.FileInfo, err error) error {
		if err != nil {
			return err
		}
		rel, _ := filepath.Rel(src, path)
		target := filepath.Join(dst, rel)
		if info.IsDir() {
			return os.MkdirAll(target, 0o755)
		}
		data, err := os.ReadFile(path)
		if err != nil {
			return err
		}
		return os.WriteFile(target, data, 0o644)
	})
}

func runModelgen(repo, outDir, pkg, schema string) (string, error) {
	ctx, cancel := context.WithTimeout(context.Background(), 5*time.Minute)
	defer cancel()
	cmd := osexec.CommandContext(ctx, "go", "run", "./cmd/modelgen", "-extended", "-p", pkg, "-o", outDir, schema)
	cmd.Dir = repo
	cmd.Env = append(os.Environ(), "GOFLAGS=-mod=mod", "GOPROXY=off", "GOSUMDB=off", "GOTOOLCHAIN=local")
	var buf bytes.Buffer
	cmd.Stdout = &buf
	cmd.Stderr = &buf
	err := cmd.Run()
	return buf.String(), err
}

func readDir(dir string) (map[string][]byte, error) {
	out := map[string][]byte{}
	ents, err := os.ReadDir(dir)
	if err != nil {
		return nil, err
	}
	for _, e := range ents {
		if e.IsDir() {
			continue
		}
		b, err := os.ReadFile(filepath.Join(dir, e.Name()))
		if err != nil {
			return nil, err
		}
		out[e.Name()] = b
	}
	return out, nil
}

// pregenModelgen returns the harness directory to use (a scratch copy of vdir/harness plus the C20 harness and the
// freshly generated package) and what the generation itself already shows.
func pregenModelgen(repo, vdir, scratch string) (string, []genFinding, map[string]interface{}, error) {
	var finds []genFinding
	info := map[string]interface{}{}
	if err := os.MkdirAll(scratch, 0o755); err != nil {
		return "", nil, nil, err
	}
	hdir := filepath.Join(scratch, "harness")
	if err := copyTree(filepath.Join(vdir, "harness"), hdir); err != nil {
		return "", nil, nil, err
	}
	src := filepath.Join(vdir, "harness-c20")
	if err := copyTree(filepath.Join(src, "zzverif"), filepath.Join(hdir, "zzverif")); err != nil {
		return "", nil, nil, err
	}
	corpus := filepath.Join(src, "corpus.ovsschema")
	const runs = 3
	var outs []map[string][]byte
	for i := 0; i < runs; i++ {
		dir := filepath.Join(scratch, fmt.Sprintf("gen%d", i))
		out, err := runModelgen(repo, dir, "c20gen", corpus)
		if err != nil {
			finds = append(finds, genFinding{"gen:the generator fails on the corpus schema", "C20: the generator fails on a valid schema", out})
			return hdir, finds, info, nil
		}
		files, err := readDir(dir)
		if err != nil {
			return "", nil, nil, err
		}
		outs = append(outs, files)
	}
	var names []string
	total := 0
	for n, b := range outs[0] {
		names = append(names, n)
		total += len(b)
	}
	sort.Strings(names)
	info["generated_files"] = names
	info["generated_bytes"] = total
	info["generator_runs_compared"] = runs
	for i := 1; i < runs; i++ {
		diff := ""
		if len(outs[i]) != len(outs[0]) {
			diff = "different sets of files"
		}
		for n, b := range outs[0] {
			if !bytes.Equal(b, outs[i][n]) {
				diff = "file " + n + " differs"
			}
		}
		if diff != "" {
			finds = append(finds, genFinding{"gen:the generated code differs from run to run", "C20: the generator's output is not identical from run to run", diff})
			break
		}
	}
	gdir := filepath.Join(hdir, "zzverif", "c20gen")
	os.MkdirAll(gdir, 0o755)
	for n, b := range outs[0] {
		if strings.HasSuffix(n, ".go") {
			os.WriteFile(filepath.Join(gdir, n), b, 0o644)
		}
	}
	// second corpus: enum columns whose base type is not string
	if out, err := runModelgen(repo, filepath.Join(scratch, "genenum"), "c20enum", filepath.Join(src, "corpus-enums.ovsschema")); err != nil {
		d := strings.TrimSpace(out)
		if len(d) > 300 {
			d = d[:300]
		}
		finds = append(finds, genFinding{"gen:the generator fails on a schema with integer, real and boolean enum columns", "C20: the generator fails on a valid schema (enum columns of non-string types)", d})
	} else {
		// it must also compile
		ctx, cancel := context.WithTimeout(context.Background(), 5*time.Minute)
		defer cancel()
		edir := filepath.Join(hdir, "zzverif", "c20enum")
		os.MkdirAll(edir, 0o755)
		files, _ := readDir(filepath.Join(scratch, "genenum"))
		replace := map[string]string{}
		for n, b := range files {
			p := filepath.Join(edir, n)
			os.WriteFile(p, b, 0o644)
			replace[filepath.Join(repo, "zzverif", "c20enum", n)] = p
		}
		ov := filepath.Join(scratch, "enum_overlay.json")
		writeJSON(ov, map[string]interface{}{"Replace": replace})
		cmd := osexec.CommandContext(ctx, "go", "build", "-overlay", ov, "-o", os.DevNull, "./zzverif/c20enum/")
		cmd.Dir = repo
		cmd.Env = append(os.Environ(), "GOFLAGS=-mod=mod", "GOPROXY=off", "GOSUMDB=off", "GOTOOLCHAIN=local")
		if out, err := cmd.CombinedOutput(); err != nil {
			d := strings.TrimSpace(string(out))
			if len(d) > 300 {
				d = d[:300]
			}
			finds = append(finds, genFinding{"gen:the code generated for non-string enum columns does not compile", "C20: the generated code does not compile (enum columns of non-string types)", d})
		}
		os.RemoveAll(edir) // not part of what the executor loads
	}
	return hdir, finds, info, nil
}
