package gosym

// Tree-level model of encoding/json. Marshal produces a blob handle holding a node tree whose leaves may be
// symbolic; Unmarshal consumes a blob (or concrete bytes, parsed natively). Marshaler/Unmarshaler methods of
// the code under test are interpreted.

import (
	"sync"
	"bytes"
	"encoding/base64"
	"encoding/json"
	"fmt"
	"go/types"
	"math"
	"reflect"
	"sort"
	"strconv"
	"strings"
	"unicode"
	"unicode/utf8"

	"golang.org/x/tools/go/ssa"
)

type jkind int

const (
	jNull jkind = iota
	jBool
	jInt   // integer number: v is an integer value/sym (signed per unsigned flag)
	jFloat // float number: v is float64 value/sym
	jLit   // concrete numeric literal from text: lit
	jStr
	jArr
	jObj
	jLazy
)

type jnode struct {
	kind     jkind
	v        value // bool / int / float / string payload (concrete or sym)
	unsigned bool
	lit      string
	arr      []*jnode
	keys     []value // string or sym
	vals     []*jnode
	lazy     *lazyState
}

type jsonBlob struct {
	node  *jnode
	cache []value
}

func (n *jnode) String() string {
	var sb strings.Builder
	n.write(&sb, false)
	return sb.String()
}

// write prints the node; strict=true aborts on symbolic leaves.
func (n *jnode) write(sb *strings.Builder, strict bool) {
	symLeaf := func(v value) {
		if strict {
			panic(unsupported("JSON text of a symbolic tree is needed (byte-level use of a marshalled value)"))
		}
		sb.WriteString(toString(v))
	}
	switch n.kind {
	case jNull:
		sb.WriteString("null")
	case jBool:
		if b, ok := n.v.(bool); ok {
			sb.WriteString(strconv.FormatBool(b))
		} else {
			symLeaf(n.v)
		}
	case jInt:
		if isSym(n.v) {
			symLeaf(n.v)
		} else if n.unsigned {
			sb.WriteString(strconv.FormatUint(uint64(asInt64(n.v)), 10))
		} else {
			sb.WriteString(strconv.FormatInt(asInt64(n.v), 10))
		}
	case jFloat:
		if f, ok := n.v.(float64); ok {
			b, err := json.Marshal(f)
			if err != nil {
				sb.WriteString("NaN")
			} else {
				sb.Write(b)
			}
		} else {
			symLeaf(n.v)
		}
	case jLit:
		sb.WriteString(n.lit)
	case jStr:
		if s, ok := n.v.(string); ok {
			b, _ := json.Marshal(s)
			sb.Write(b)
		} else {
			symLeaf(n.v)
		}
	case jArr:
		sb.WriteByte('[')
		for i, c := range n.arr {
			if i > 0 {
				sb.WriteByte(',')
			}
			c.write(sb, strict)
		}
		sb.WriteByte(']')
	case jObj:
		sb.WriteByte('{')
		for i, k := range n.keys {
			if i > 0 {
				sb.WriteByte(',')
			}
			if s, ok := k.(string); ok {
				b, _ := json.Marshal(s)
				sb.Write(b)
			} else {
				symLeaf(k)
			}
			sb.WriteByte(':')
			n.vals[i].write(sb, strict)
		}
		sb.WriteByte('}')
	case jLazy:
		if n.lazy.resolved != nil {
			n.lazy.resolved.write(sb, strict)
		} else if strict {
			panic(unsupported("JSON text of an unresolved lazy tree"))
		} else {
			sb.WriteString("<lazy>")
		}
	}
}

func (b *jsonBlob) text() string {
	var sb strings.Builder
	b.node.write(&sb, true)
	return sb.String()
}

func (b *jsonBlob) bytes() []value {
	if b == nil {
		return nil
	}
	if b.cache == nil {
		s := b.text()
		b.cache = make([]value, len(s))
		for i := 0; i < len(s); i++ {
			b.cache[i] = s[i]
		}
	}
	return b.cache
}

func bytesOf(v value) ([]byte, bool) {
	s, ok := v.([]value)
	if !ok {
		return nil, false
	}
	out := make([]byte, len(s))
	for i, b := range s {
		c, ok := b.(uint8)
		if !ok {
			return nil, false
		}
		out[i] = c
	}
	return out, true
}

func byteValues(b []byte) []value {
	out := make([]value, len(b))
	for i, c := range b {
		out[i] = c
	}
	return out
}

// parseJSONText parses concrete JSON text into a node tree.
func parseJSONText(data []byte) (*jnode, error) {
	dec := json.NewDecoder(bytes.NewReader(data))
	dec.UseNumber()
	var v interface{}
	if err := dec.Decode(&v); err != nil {
		return nil, err
	}
	// trailing data?
	if dec.More() {
		return nil, fmt.Errorf("invalid character after top-level value")
	}
	var tok json.Token
	var err error
	if tok, err = dec.Token(); err == nil {
		return nil, fmt.Errorf("invalid character %v after top-level value", tok)
	}
	// ordered objects: re-parse with token stream to keep key order and duplicates
	dec = json.NewDecoder(bytes.NewReader(data))
	dec.UseNumber()
	return parseTokens(dec)
}

func parseTokens(dec *json.Decoder) (*jnode, error) {
	tok, err := dec.Token()
	if err != nil {
		return nil, err
	}
	switch t := tok.(type) {
	case json.Delim:
		switch t {
		case '[':
			n := &jnode{kind: jArr, arr: []*jnode{}}
			for dec.More() {
				c, err := parseTokens(dec)
				if err != nil {
					return nil, err
				}
				n.arr = append(n.arr, c)
			}
			dec.Token()
			return n, nil
		case '{':
			n := &jnode{kind: jObj}
			for dec.More() {
				k, err := dec.Token()
				if err != nil {
					return nil, err
				}
				c, err := parseTokens(dec)
				if err != nil {
					return nil, err
				}
				n.keys = append(n.keys, k.(string))
				n.vals = append(n.vals, c)
			}
			dec.Token()
			return n, nil
		}
	case nil:
		return &jnode{kind: jNull}, nil
	case bool:
		return &jnode{kind: jBool, v: t}, nil
	case json.Number:
		return &jnode{kind: jLit, lit: string(t)}, nil
	case string:
		return &jnode{kind: jStr, v: t}, nil
	}
	return nil, fmt.Errorf("unexpected token %v", tok)
}

// nodeOfBytes converts a []byte-typed executor value into a node tree.
func (ex *exec) nodeOfBytes(v value) (*jnode, error) {
	switch b := v.(type) {
	case *jsonBlob:
		if b == nil {
			return nil, fmt.Errorf("unexpected end of JSON input")
		}
		return b.node, nil
	case []value:
		raw, ok := bytesOf(b)
		if !ok {
			panic(unsupported("JSON input with symbolic bytes"))
		}
		return parseJSONText(raw)
	case nil:
		return nil, fmt.Errorf("unexpected end of JSON input")
	}
	panic(fmt.Sprintf("nodeOfBytes: %T", v))
}

func (ex *exec) mkError(msg string) value {
	slot := new(value)
	*slot = structure{msg}
	return iface{t: ex.errorsStr, v: slot}
}

// ---------------------------------------------------------------------
// struct field analysis

type jfield struct {
	name      string
	index     []int
	typ       types.Type
	omitEmpty bool
	quoted    bool
	tagged    bool
}

var jsonFieldCache sync.Map

func jsonFields(t *types.Struct) []jfield {
	if v, ok := jsonFieldCache.Load(t); ok {
		return v.([]jfield)
	}
	f := jsonFieldsUncached(t)
	jsonFieldCache.Store(t, f)
	return f
}

func jsonFieldsUncached(t *types.Struct) []jfield {
	type cand struct {
		f     jfield
		depth int
	}
	var all []cand
	type level struct {
		st    *types.Struct
		index []int
	}
	cur := []level{{t, nil}}
	visited := map[*types.Struct]bool{}
	for depth := 0; len(cur) > 0; depth++ {
		var next []level
		for _, lv := range cur {
			if visited[lv.st] {
				continue
			}
			visited[lv.st] = true
			for i := 0; i < lv.st.NumFields(); i++ {
				sf := lv.st.Field(i)
				ft := sf.Type()
				if sf.Anonymous() {
					et := ft
					if p, ok := et.Underlying().(*types.Pointer); ok {
						et = p.Elem()
					}
					if !sf.Exported() {
						if _, ok := et.Underlying().(*types.Struct); !ok {
							continue
						}
					}
				} else if !sf.Exported() {
					continue
				}
				tag := reflect.StructTag(lv.st.Tag(i)).Get("json")
				if tag == "-" {
					continue
				}
				name, opts, _ := strings.Cut(tag, ",")
				idx := append(append([]int(nil), lv.index...), i)
				et := ft
				if p, ok := et.Underlying().(*types.Pointer); ok && sf.Anonymous() {
					et = p.Elem()
				}
				if name == "" && sf.Anonymous() {
					if st, ok := et.Underlying().(*types.Struct); ok {
						next = append(next, level{st, idx})
						continue
					}
				}
				f := jfield{name: name, index: idx, typ: ft, tagged: name != ""}
				if name == "" {
					f.name = sf.Name()
				}
				for _, o := range strings.Split(opts, ",") {
					switch o {
					case "omitempty":
						f.omitEmpty = true
					case "string":
						f.quoted = true
					}
				}
				all = append(all, cand{f, depth})
			}
		}
		cur = next
	}
	// dominance: per name keep the shallowest; among equals prefer tagged; ties annihilate
	byName := map[string][]cand{}
	var order []string
	for _, c := range all {
		if _, ok := byName[c.f.name]; !ok {
			order = append(order, c.f.name)
		}
		byName[c.f.name] = append(byName[c.f.name], c)
	}
	var out []jfield
	for _, name := range order {
		cs := byName[name]
		min := cs[0].depth
		for _, c := range cs {
			if c.depth < min {
				min = c.depth
			}
		}
		var best []cand
		for _, c := range cs {
			if c.depth == min {
				best = append(best, c)
			}
		}
		if len(best) > 1 {
			var tagged []cand
			for _, c := range best {
				if c.f.tagged {
					tagged = append(tagged, c)
				}
			}
			if len(tagged) == 1 {
				best = tagged
			} else {
				continue
			}
		}
		out = append(out, best[0].f)
	}
	sort.SliceStable(out, func(i, j int) bool {
		a, b := out[i].index, out[j].index
		for k := 0; k < len(a) && k < len(b); k++ {
			if a[k] != b[k] {
				return a[k] < b[k]
			}
		}
		return len(a) < len(b)
	})
	return out
}

type methKey struct {
	t    types.Type
	ptr  bool
	name string
}

type methVal struct {
	sel *types.Selection
	fn  *ssa.Function
}

// methodOf returns (cached) the method set entry and implementation of an exported method of t.
func (p *Program) methodOf(t types.Type, name string) methVal {
	if _, ok := t.(*fakeType); ok {
		return methVal{}
	}
	key := methKey{t: t, name: name}
	if pt, ok := t.(*types.Pointer); ok {
		key = methKey{t: pt.Elem(), ptr: true, name: name}
	}
	if v, ok := p.methCache.Load(key); ok {
		return v.(methVal)
	}
	var mv methVal
	mv.sel = p.prog.MethodSets.MethodSet(t).Lookup(nil, name)
	if mv.sel != nil {
		mv.fn = p.prog.LookupMethod(t, nil, name)
	}
	p.methCache.Store(key, mv)
	return mv
}

func (p *Program) hasMethod(t types.Type, name string) *types.Selection {
	return p.methodOf(t, name).sel
}

func (p *Program) lookupExported(t types.Type, name string) *ssa.Function {
	return p.methodOf(t, name).fn
}

// ---------------------------------------------------------------------
// Marshal

type jsonErr struct{ err value }

func (ex *exec) jsonMarshal(fr *frame, v iface) (blob value, err value) {
	defer func() {
		if r := recover(); r != nil {
			if je, ok := r.(jsonErr); ok {
				blob, err = []value(nil), je.err
				return
			}
			panic(r)
		}
	}()
	var n *jnode
	if v.t == nil {
		n = &jnode{kind: jNull}
	} else {
		n = ex.encode(fr, v.t, v.v, nil, 0)
	}
	return &jsonBlob{node: n}, iface{}
}

// encode converts value v of type t. addr, if non-nil, is the slot holding v (addressable).
func (ex *exec) encode(fr *frame, t types.Type, v value, addr *value, depth int) *jnode {
	if depth > 60 {
		panic(jsonErr{ex.mkError("json: unsupported value: encountered a cycle")})
	}
	// Marshaler on T
	if _, isFake := t.(*fakeType); isFake {
		panic(unsupported("json.Marshal of stubbed object %s", t))
	}
	_, isPtr := t.Underlying().(*types.Pointer)
	if sel := ex.hasMethod(t, "MarshalJSON"); sel != nil {
		if isPtr {
			if p, _ := v.(*value); p == nil {
				return &jnode{kind: jNull}
			}
		}
		if types.IsInterface(t) {
			iv := ex.force(v.(iface))
			if iv.t == nil {
				return &jnode{kind: jNull}
			}
			return ex.encode(fr, iv.t, iv.v, nil, depth+1)
		}
		return ex.callMarshaler(fr, t, v)
	}
	if !isPtr && addr != nil {
		pt := types.NewPointer(t)
		if sel := ex.hasMethod(pt, "MarshalJSON"); sel != nil {
			return ex.callMarshaler(fr, pt, addr)
		}
	}
	if ex.hasMethod(t, "MarshalText") != nil {
		panic(unsupported("json.Marshal via TextMarshaler %s", t))
	}
	switch u := t.Underlying().(type) {
	case *types.Basic:
		switch {
		case u.Kind() == types.Bool:
			return &jnode{kind: jBool, v: v}
		case u.Info()&types.IsInteger != 0:
			return &jnode{kind: jInt, v: v, unsigned: u.Info()&types.IsUnsigned != 0}
		case u.Kind() == types.Float64 || u.Kind() == types.Float32:
			if s, ok := v.(sym); ok {
				bad := ex.tt.Or(ex.tt.FIsNaN(s.t), ex.tt.FIsInf(s.t))
				if ex.branch(bad) {
					panic(jsonErr{ex.mkError("json: unsupported value: NaN or Inf")})
				}
				return &jnode{kind: jFloat, v: v}
			}
			f, ok := v.(float64)
			if !ok {
				f = float64(v.(float32))
			}
			if math.IsNaN(f) || math.IsInf(f, 0) {
				panic(jsonErr{ex.mkError("json: unsupported value: " + strconv.FormatFloat(f, 'g', -1, 64))})
			}
			return &jnode{kind: jFloat, v: f}
		case u.Kind() == types.String:
			if nt, ok := t.(*types.Named); ok && nt.Obj().Name() == "Number" && nt.Obj().Pkg() != nil && nt.Obj().Pkg().Path() == "encoding/json" {
				// json.Number is written as the number literal it holds ("" as 0)
				lit, ok := v.(string)
				if !ok {
					panic(unsupported("json.Marshal of a symbolic json.Number"))
				}
				if lit == "" {
					lit = "0"
				}
				if _, err := strconv.ParseFloat(lit, 64); err != nil {
					panic(jsonErr{ex.mkError("json: invalid number literal " + strconv.Quote(lit))})
				}
				return &jnode{kind: jLit, lit: lit}
			}
			return &jnode{kind: jStr, v: v}
		}
	case *types.Pointer:
		p, _ := v.(*value)
		if p == nil {
			return &jnode{kind: jNull}
		}
		return ex.encode(fr, u.Elem(), load(u.Elem(), p), p, depth+1)
	case *types.Interface:
		iv := v.(iface)
		if iv.t == nil {
			return &jnode{kind: jNull}
		}
		if iv.t == ex.lazyT {
			return iv.v.(*jnode)
		}
		return ex.encode(fr, iv.t, iv.v, nil, depth+1)
	case *types.Slice:
		if jb, ok := v.(*jsonBlob); ok {
			// []byte holding JSON text, marshalled as base64 of its text
			v = jb.bytes()
		}
		s, _ := v.([]value)
		if s == nil {
			return &jnode{kind: jNull}
		}
		if eb, ok := u.Elem().Underlying().(*types.Basic); ok && eb.Kind() == types.Uint8 {
			raw, ok := bytesOf(s)
			if !ok {
				panic(unsupported("json.Marshal of symbolic []byte"))
			}
			return &jnode{kind: jStr, v: base64.StdEncoding.EncodeToString(raw)}
		}
		n := &jnode{kind: jArr, arr: make([]*jnode, len(s))}
		for i := range s {
			n.arr[i] = ex.encode(fr, u.Elem(), load(u.Elem(), &s[i]), &s[i], depth+1)
		}
		return n
	case *types.Array:
		a := v.(array)
		n := &jnode{kind: jArr, arr: make([]*jnode, len(a))}
		for i := range a {
			n.arr[i] = ex.encode(fr, u.Elem(), a[i], nil, depth+1)
		}
		return n
	case *types.Map:
		m, _ := v.(*omap)
		if m == nil {
			return &jnode{kind: jNull}
		}
		kb, ok := u.Key().Underlying().(*types.Basic)
		if !ok || (kb.Kind() != types.String && kb.Info()&types.IsInteger == 0) {
			panic(jsonErr{ex.mkError("json: unsupported type: " + reflectTypeString(t))})
		}
		n := &jnode{kind: jObj}
		entries := m.live()
		allConc := true
		for _, e := range entries {
			if isSym(e.key) {
				allConc = false
			}
		}
		if allConc && kb.Kind() == types.String {
			sort.SliceStable(entries, func(i, j int) bool { return entries[i].key.(string) < entries[j].key.(string) })
		}
		for _, e := range entries {
			k := e.key
			if kb.Kind() != types.String {
				if isSym(k) {
					panic(unsupported("json.Marshal of map with symbolic integer key"))
				}
				k = strconv.FormatInt(asInt64(k), 10)
			}
			n.keys = append(n.keys, k)
			n.vals = append(n.vals, ex.encode(fr, u.Elem(), e.val, nil, depth+1))
		}
		return n
	case *types.Struct:
		s := v.(structure)
		n := &jnode{kind: jObj}
		for _, f := range jsonFields(u) {
			fv, faddr, ok := fieldByIndex(u, s, addr, f.index)
			if !ok {
				continue
			}
			if f.omitEmpty && ex.isEmptyValue(f.typ, fv) {
				continue
			}
			if f.quoted {
				panic(unsupported("json ',string' option"))
			}
			n.keys = append(n.keys, f.name)
			n.vals = append(n.vals, ex.encode(fr, f.typ, fv, faddr, depth+1))
		}
		return n
	case *types.Signature, *types.Chan:
		panic(jsonErr{ex.mkError("json: unsupported type: " + reflectTypeString(t))})
	}
	panic(unsupported("json.Marshal of %s", t))
}

// fieldByIndex walks an index path through (possibly pointer-) embedded structs.
func fieldByIndex(st *types.Struct, s structure, addr *value, index []int) (value, *value, bool) {
	var cur value = s
	var curAddr *value = addr
	var t types.Type = st
	for k, i := range index {
		if p, ok := t.Underlying().(*types.Pointer); ok {
			pp, _ := cur.(*value)
			if pp == nil {
				return nil, nil, false
			}
			t = p.Elem()
			cur = load(t, pp)
			curAddr = pp
		}
		ss := cur.(structure)
		u := t.Underlying().(*types.Struct)
		if curAddr != nil {
			curAddr = &(*curAddr).(structure)[i]
		}
		cur = ss[i]
		t = u.Field(i).Type()
		_ = k
	}
	return cur, curAddr, true
}

func (ex *exec) isEmptyValue(t types.Type, v value) bool {
	switch x := v.(type) {
	case []value:
		return len(x) == 0
	case *jsonBlob:
		return x == nil
	case *omap:
		return x.len() == 0
	case array:
		return len(x) == 0
	case structure:
		return false
	case sym:
		if x.k == types.String {
			return ex.branch(ex.tt.Eq(x.t, ex.tt.Str("")))
		}
		if x.k == types.Float64 {
			return ex.branch(ex.tt.Eq(x.t, ex.tt.F64(0)))
		}
		return ex.branch(ex.isZeroTerm(t, v))
	case float64:
		return x == 0
	}
	z := ex.isZeroTerm(t, v)
	return z.cv.(bool)
}

func (ex *exec) callMarshaler(fr *frame, recvT types.Type, recv value) *jnode {
	fn := ex.lookupExported(recvT, "MarshalJSON")
	if fn == nil {
		panic(unsupported("MarshalJSON method of %s not found", recvT))
	}
	res := ex.call(fr, 0, fn, []value{recv}).(tuple)
	if e := res[1].(iface); e.t != nil {
		panic(jsonErr{e})
	}
	n, err := ex.nodeOfBytes(res[0])
	if err != nil {
		panic(jsonErr{ex.mkError("json: error calling MarshalJSON for type " + reflectTypeString(recvT) + ": " + err.Error())})
	}
	return n
}

// ---------------------------------------------------------------------
// Unmarshal

type decodeState struct {
	ex       *exec
	fr       *frame
	savedErr value
}

func (ex *exec) jsonUnmarshal(fr *frame, data value, target iface) value {
	n, err := ex.nodeOfBytes(data)
	if err != nil {
		return ex.mkError(err.Error())
	}
	if target.t == nil {
		return ex.mkError("json: Unmarshal(nil)")
	}
	pt, ok := target.t.Underlying().(*types.Pointer)
	if !ok {
		return ex.mkError("json: Unmarshal(non-pointer " + reflectTypeString(target.t) + ")")
	}
	p, _ := target.v.(*value)
	if p == nil {
		return ex.mkError("json: Unmarshal(nil " + reflectTypeString(target.t) + ")")
	}
	d := &decodeState{ex: ex, fr: fr}
	var res value = iface{}
	func() {
		defer func() {
			if r := recover(); r != nil {
				if je, ok := r.(jsonErr); ok {
					res = je.err
					return
				}
				panic(r)
			}
		}()
		d.decode(n, pt.Elem(), p)
	}()
	if e, _ := res.(iface); e.t != nil {
		return res
	}
	if d.savedErr != nil {
		return d.savedErr
	}
	return iface{}
}

func (d *decodeState) typeErr(what string, t types.Type) {
	if d.savedErr == nil {
		d.savedErr = d.ex.mkError("json: cannot unmarshal " + what + " into Go value of type " + reflectTypeString(t))
	}
}

func (n *jnode) describe() string {
	switch n.kind {
	case jNull:
		return "null"
	case jBool:
		return "bool"
	case jInt, jFloat, jLit:
		return "number"
	case jStr:
		return "string"
	case jArr:
		return "array"
	case jObj:
		return "object"
	}
	return "value"
}

// decode stores node n into the slot addr of type t.
func (d *decodeState) decode(n *jnode, t types.Type, addr *value) {
	ex := d.ex
	pt := types.NewPointer(t)
	_, isPtr := t.Underlying().(*types.Pointer)
	hasUnm := !types.IsInterface(t) && !isPtr && ex.hasMethod(pt, "UnmarshalJSON") != nil
	if n.kind == jLazy {
		switch {
		case n.lazy.resolved != nil:
			n = n.lazy.resolved
		case hasUnm:
			// the Unmarshaler inspects the value itself
		case isPtr:
			if n.lazy.nonNull || ex.decide("jsonnull", []*Term{ex.tt.Bool(true), ex.tt.Bool(true)}) == 1 {
				n.lazy.nonNull = true
			} else {
				n, _ = ex.resolveLazyFor(n, nil, nil, false) // null
			}
		default:
			if it, ok := t.Underlying().(*types.Interface); ok && it.NumMethods() == 0 {
				cur := (*addr).(iface)
				if cur.t == nil {
					*addr = ex.nodeToInterface(n)
					return
				}
			}
			r, mismatch := ex.resolveLazyFor(n, wantedKinds(t), structKeyMenu(t), true)
			if mismatch {
				d.typeErr("value", t)
				return
			}
			n = r
		}
	}
	// Unmarshaler on *T
	if n.kind == jNull && isPtr {
		*addr = (*value)(nil)
		return
	}
	if !types.IsInterface(t) {
		if isPtr {
			// *T with T's pointer implementing Unmarshaler: allocate and descend (handled below in pointer case)
		} else if hasUnm {
			d.callUnmarshaler(pt, addr, n)
			return
		} else if ex.hasMethod(pt, "UnmarshalText") != nil {
			panic(unsupported("json.Unmarshal via TextUnmarshaler %s", t))
		}
	}
	switch u := t.Underlying().(type) {
	case *types.Pointer:
		p, _ := (*addr).(*value)
		if p == nil {
			p = new(value)
			*p = zero(u.Elem())
			*addr = p
		}
		d.decode(n, u.Elem(), p)
	case *types.Interface:
		if n.kind == jNull {
			*addr = iface{}
			return
		}
		if u.NumMethods() == 0 {
			// encoding/json: a non-nil pointer inside the interface is decoded into
			cur := (*addr).(iface)
			if cur.t != nil {
				if cp, ok := cur.t.Underlying().(*types.Pointer); ok {
					if p, _ := cur.v.(*value); p != nil {
						d.decode(n, cp.Elem(), p)
						return
					}
				}
			}
			*addr = d.toInterface(n)
			return
		}
		cur := (*addr).(iface)
		if cur.t != nil {
			if cp, ok := cur.t.Underlying().(*types.Pointer); ok {
				if p, _ := cur.v.(*value); p != nil {
					d.decode(n, cp.Elem(), p)
					return
				}
			}
		}
		d.typeErr(n.describe(), t)
	case *types.Basic:
		d.decodeBasic(n, t, u, addr)
	case *types.Slice:
		switch n.kind {
		case jNull:
			*addr = []value(nil)
		case jArr:
			elemT := u.Elem()
			s, _ := (*addr).([]value)
			// mirror encoding/json's growth: reuse capacity, Grow(1) when full
			s = s[:0:cap(s)]
			if s == nil {
				s = []value(nil)
			}
			for i, c := range n.arr {
				if i >= cap(s) {
					nc := ex.growCap(elemT, cap(s), cap(s)+1)
					ns := make([]value, len(s), nc)
					copy(ns, s)
					for k := len(s); k < nc; k++ {
						ns[:nc][k] = zero(elemT)
					}
					s = ns
				}
				s = s[:i+1]
				s[i] = zero(elemT)
				d.decode(c, elemT, &s[i])
			}
			if len(n.arr) == 0 {
				s = make([]value, 0)
			}
			*addr = s
		case jStr:
			if eb, ok := u.Elem().Underlying().(*types.Basic); ok && eb.Kind() == types.Uint8 {
				str, ok := n.v.(string)
				if !ok {
					panic(unsupported("base64 decode of symbolic string"))
				}
				raw, err := base64.StdEncoding.DecodeString(str)
				if err != nil {
					d.typeErr("string", t)
					return
				}
				*addr = byteValues(raw)
				return
			}
			d.typeErr("string", t)
		default:
			d.typeErr(n.describe(), t)
		}
	case *types.Array:
		if n.kind == jNull {
			return
		}
		if n.kind != jArr {
			d.typeErr(n.describe(), t)
			return
		}
		a := (*addr).(array)
		for i := range a {
			if i < len(n.arr) {
				d.decode(n.arr[i], u.Elem(), &a[i])
			} else {
				a[i] = zero(u.Elem())
			}
		}
	case *types.Map:
		switch n.kind {
		case jNull:
			*addr = (*omap)(nil)
		case jObj:
			kb, ok := u.Key().Underlying().(*types.Basic)
			if !ok || (kb.Kind() != types.String && kb.Info()&types.IsInteger == 0) {
				d.typeErr("object", t)
				return
			}
			m, _ := (*addr).(*omap)
			if m == nil {
				m = makeMap(u.Key())
				*addr = m
			}
			for i, k := range n.keys {
				slot := new(value)
				*slot = zero(u.Elem())
				d.decode(n.vals[i], u.Elem(), slot)
				var key value = k
				if kb.Kind() != types.String {
					ks, ok := k.(string)
					if !ok {
						panic(unsupported("symbolic object key into integer-keyed map"))
					}
					iv, err := strconv.ParseInt(ks, 10, 64)
					if err != nil {
						d.typeErr("number "+ks, u.Key())
						continue
					}
					key = numTo(kb.Kind(), iv)
				}
				ex.mapInsert(m, key, *slot)
			}
		default:
			d.typeErr(n.describe(), t)
		}
	case *types.Struct:
		switch n.kind {
		case jNull:
		case jObj:
			fields := jsonFields(u)
			for i, k := range n.keys {
				ks, ok := k.(string)
				if !ok {
					panic(unsupported("symbolic object key decoded into a struct"))
				}
				var f *jfield
				for j := range fields {
					if fields[j].name == ks {
						f = &fields[j]
						break
					}
				}
				if f == nil {
					for j := range fields {
						if foldEqual(fields[j].name, ks) {
							f = &fields[j]
							break
						}
					}
				}
				if f == nil {
					continue
				}
				faddr := d.fieldAddr(u, addr, f.index)
				if faddr == nil {
					continue
				}
				if f.quoted {
					panic(unsupported("json ',string' option"))
				}
				d.decode(n.vals[i], f.typ, faddr)
			}
		default:
			d.typeErr(n.describe(), t)
		}
	default:
		d.typeErr(n.describe(), t)
	}
}

// wantedKinds lists the JSON kinds a decode target of type t accepts.
func wantedKinds(t types.Type) []jkind {
	switch u := t.Underlying().(type) {
	case *types.Basic:
		switch {
		case u.Kind() == types.Bool:
			return []jkind{jBool}
		case u.Kind() == types.String:
			return []jkind{jStr}
		case u.Info()&types.IsNumeric != 0:
			return []jkind{jFloat}
		}
	case *types.Slice:
		if eb, ok := u.Elem().Underlying().(*types.Basic); ok && eb.Kind() == types.Uint8 {
			return []jkind{jStr}
		}
		return []jkind{jArr}
	case *types.Array:
		return []jkind{jArr}
	case *types.Map, *types.Struct:
		return []jkind{jObj}
	case *types.Interface:
		return allJSONKinds
	}
	return allJSONKinds
}

func structKeyMenu(t types.Type) []string {
	st, ok := t.Underlying().(*types.Struct)
	if !ok {
		return nil
	}
	var keys []string
	for _, f := range jsonFields(st) {
		keys = append(keys, f.name)
	}
	return keys
}

func foldEqual(a, b string) bool {
	return strings.EqualFold(a, b) || foldName(a) == foldName(b)
}

func foldName(s string) string {
	var sb strings.Builder
	for _, r := range s {
		sb.WriteRune(unicode.ToLower(r))
	}
	return sb.String()
}

// fieldAddr returns the slot of the field at index path, allocating embedded pointers on the way.
func (d *decodeState) fieldAddr(st *types.Struct, addr *value, index []int) *value {
	cur := addr
	var t types.Type = st
	for _, i := range index {
		if p, ok := t.Underlying().(*types.Pointer); ok {
			pp, _ := (*cur).(*value)
			if pp == nil {
				pp = new(value)
				*pp = zero(p.Elem())
				*cur = pp
			}
			cur = pp
			t = p.Elem()
		}
		u := t.Underlying().(*types.Struct)
		cur = &(*cur).(structure)[i]
		t = u.Field(i).Type()
	}
	return cur
}

func (d *decodeState) callUnmarshaler(pt types.Type, addr *value, n *jnode) {
	ex := d.ex
	fn := ex.lookupExported(pt, "UnmarshalJSON")
	if fn == nil {
		panic(unsupported("UnmarshalJSON method of %s not found", pt))
	}
	if jb := rawMessageType(pt); jb {
		*addr = &jsonBlob{node: n}
		return
	}
	res := ex.call(d.fr, 0, fn, []value{addr, &jsonBlob{node: n}})
	if e := res.(iface); e.t != nil {
		panic(jsonErr{e})
	}
}

func rawMessageType(pt types.Type) bool {
	p, ok := pt.Underlying().(*types.Pointer)
	if !ok {
		return false
	}
	if n, ok := p.Elem().(*types.Named); ok {
		return n.Obj().Name() == "RawMessage" && n.Obj().Pkg() != nil && n.Obj().Pkg().Path() == "encoding/json"
	}
	return false
}

// numAsFloat returns the float64 value of a number node (as decoded into interface{}).
func (d *decodeState) numAsFloat(n *jnode) value {
	ex := d.ex
	switch n.kind {
	case jInt:
		if s, ok := n.v.(sym); ok {
			return fromTerm(ex.tt.IntToF(s.t, !n.unsigned), types.Float64)
		}
		if n.unsigned {
			return float64(uint64(asInt64(n.v)))
		}
		return float64(asInt64(n.v))
	case jFloat:
		return n.v
	case jLit:
		f, err := strconv.ParseFloat(n.lit, 64)
		if err != nil {
			panic(jsonErr{ex.mkError("json: cannot unmarshal number " + n.lit + " into Go value of type float64")})
		}
		return f
	}
	panic("numAsFloat")
}

func (d *decodeState) toInterface(n *jnode) value { return d.ex.nodeToInterface(n) }

// nodeToInterface is the value encoding/json stores when decoding into interface{}. An unresolved lazy node
// becomes a lazy interface value: its dynamic type is decided only when the program inspects it (force).
func (ex *exec) nodeToInterface(n *jnode) value {
	if n.kind == jLazy {
		if n.lazy.resolved == nil {
			return iface{t: ex.lazyT, v: n}
		}
		if n.lazy.forced != nil {
			return *n.lazy.forced
		}
		r := ex.nodeToInterface(n.lazy.resolved).(iface)
		n.lazy.forced = &r
		return r
	}
	d := &decodeState{ex: ex}
	switch n.kind {
	case jNull:
		return iface{}
	case jBool:
		return iface{t: types.Typ[types.Bool], v: n.v}
	case jInt, jFloat, jLit:
		return iface{t: types.Typ[types.Float64], v: d.numAsFloat(n)}
	case jStr:
		return iface{t: types.Typ[types.String], v: n.v}
	case jArr:
		s := make([]value, len(n.arr))
		for i, c := range n.arr {
			s[i] = ex.nodeToInterface(c)
		}
		return iface{t: ex.anySlice(), v: s}
	case jObj:
		m := makeMap(types.Typ[types.String])
		for i, k := range n.keys {
			ex.mapInsert(m, k, ex.nodeToInterface(n.vals[i]))
		}
		return iface{t: ex.anyMap(), v: m}
	}
	panic("nodeToInterface")
}

// force decides the dynamic type of a lazy interface value (one level).
func (ex *exec) force(x iface) iface {
	if x.t != ex.lazyT || x.t == nil {
		return x
	}
	n := x.v.(*jnode)
	ex.resolveLazy(n)
	return ex.nodeToInterface(n).(iface)
}

func (ex *exec) forceV(v value) value {
	if x, ok := v.(iface); ok && x.t != nil && x.t == ex.lazyT {
		return ex.force(x)
	}
	return v
}

func (p *Program) anySlice() types.Type { return types.NewSlice(p.anyType) }
func (p *Program) anyMap() types.Type   { return types.NewMap(types.Typ[types.String], p.anyType) }

func (d *decodeState) decodeBasic(n *jnode, t types.Type, u *types.Basic, addr *value) {
	ex := d.ex
	switch {
	case n.kind == jNull:
		return
	case u.Kind() == types.Bool:
		if n.kind != jBool {
			d.typeErr(n.describe(), t)
			return
		}
		*addr = n.v
	case u.Kind() == types.String:
		if n.kind != jStr {
			d.typeErr(n.describe(), t)
			return
		}
		*addr = n.v
	case u.Info()&types.IsInteger != 0:
		signed := u.Info()&types.IsUnsigned == 0
		bits := int(ex.sizes.Sizeof(u)) * 8
		switch n.kind {
		case jInt:
			if s, ok := n.v.(sym); ok {
				if bits == 64 && signed == !n.unsigned {
					*addr = sym{s.t, u.Kind()}
					return
				}
				if bits == 64 {
					// sign change: value must be representable
					neg := ex.tt.BVCmp("bvslt", s.t, ex.tt.BV(SBV64, 0))
					if ex.branch(neg) {
						d.typeErr("number", t)
						return
					}
					*addr = sym{s.t, u.Kind()}
					return
				}
				panic(unsupported("decode symbolic integer into %d-bit target", bits))
			}
			iv := asInt64(n.v)
			if !fitsIn(iv, n.unsigned, bits, signed) {
				d.typeErr("number", t)
				return
			}
			*addr = numTo(u.Kind(), iv)
		case jLit:
			if signed {
				iv, err := strconv.ParseInt(n.lit, 10, bits)
				if err != nil {
					d.typeErr("number "+n.lit, t)
					return
				}
				*addr = numTo(u.Kind(), iv)
			} else {
				uv, err := strconv.ParseUint(n.lit, 10, bits)
				if err != nil {
					d.typeErr("number "+n.lit, t)
					return
				}
				*addr = numTo(u.Kind(), uv)
			}
		case jFloat:
			if s, ok := n.v.(sym); ok {
				tt := ex.tt
				integral := tt.mk("fp.eq", SBool, s.t, tt.mk("fp.roundToIntegral RTZ", SF64, s.t))
				lo := tt.FCmp("fp.geq", s.t, tt.F64(-9223372036854775808.0))
				hi := tt.FCmp("fp.lt", s.t, tt.F64(9223372036854775808.0))
				okc := tt.And(integral, tt.And(lo, hi))
				if !ex.branch(okc) {
					d.typeErr("number", t)
					return
				}
				if bits != 64 || !signed {
					panic(unsupported("decode symbolic float into %s", t))
				}
				*addr = fromTerm(tt.FToInt(s.t, SBV64, true), u.Kind())
				return
			}
			f := n.v.(float64)
			txt := strconv.FormatFloat(f, 'f', -1, 64)
			if math.Abs(f) >= 1e21 || (math.Abs(f) < 1e-6 && f != 0) {
				txt = strconv.FormatFloat(f, 'e', -1, 64)
			}
			if signed {
				iv, err := strconv.ParseInt(txt, 10, bits)
				if err != nil {
					d.typeErr("number "+txt, t)
					return
				}
				*addr = numTo(u.Kind(), iv)
			} else {
				uv, err := strconv.ParseUint(txt, 10, bits)
				if err != nil {
					d.typeErr("number "+txt, t)
					return
				}
				*addr = numTo(u.Kind(), uv)
			}
		default:
			d.typeErr(n.describe(), t)
		}
	case u.Kind() == types.Float64 || u.Kind() == types.Float32:
		switch n.kind {
		case jInt, jFloat, jLit:
			f := d.numAsFloat(n)
			if u.Kind() == types.Float32 {
				if isSym(f) {
					panic(unsupported("float32 decode of symbolic number"))
				}
				*addr = float32(f.(float64))
				return
			}
			*addr = f
		default:
			d.typeErr(n.describe(), t)
		}
	default:
		d.typeErr(n.describe(), t)
	}
}

func fitsIn(v int64, srcUnsigned bool, bits int, signed bool) bool {
	if srcUnsigned {
		u := uint64(v)
		if signed {
			return bits == 64 && u <= math.MaxInt64 || bits < 64 && u < 1<<uint(bits-1)
		}
		return bits == 64 || u < 1<<uint(bits)
	}
	if signed {
		if bits == 64 {
			return true
		}
		return v >= -(1<<uint(bits-1)) && v < 1<<uint(bits-1)
	}
	if v < 0 {
		return false
	}
	return bits == 64 || uint64(v) < 1<<uint(bits)
}

func init() {
	reg("encoding/json.Marshal", func(ex *exec, fr *frame, fn *ssa.Function, a []value) value {
		b, e := ex.jsonMarshal(fr, a[0].(iface))
		return tuple{b, e}
	})
	reg("encoding/json.MarshalIndent", func(ex *exec, fr *frame, fn *ssa.Function, a []value) value {
		b, e := ex.jsonMarshal(fr, a[0].(iface))
		return tuple{b, e}
	})
	reg("encoding/json.Unmarshal", func(ex *exec, fr *frame, fn *ssa.Function, a []value) value {
		return ex.jsonUnmarshal(fr, a[0], a[1].(iface))
	})
	reg("(encoding/json.RawMessage).MarshalJSON", func(ex *exec, fr *frame, fn *ssa.Function, a []value) value {
		if isNilSlice(a[0]) {
			return tuple{byteValues([]byte("null")), iface{}}
		}
		return tuple{a[0], iface{}}
	})
	reg("(*encoding/json.RawMessage).UnmarshalJSON", func(ex *exec, fr *frame, fn *ssa.Function, a []value) value {
		p := a[0].(*value)
		if p == nil {
			return ex.mkError("json.RawMessage: UnmarshalJSON on nil pointer")
		}
		*p = a[1]
		return iface{}
	})
	reg("(*encoding/json.UnmarshalTypeError).Error", func(ex *exec, fr *frame, fn *ssa.Function, a []value) value {
		return "json: cannot unmarshal value into Go value"
	})
	reg("(*encoding/json.SyntaxError).Error", func(ex *exec, fr *frame, fn *ssa.Function, a []value) value {
		return "json: syntax error"
	})
	reg("encoding/json.Valid", func(ex *exec, fr *frame, fn *ssa.Function, a []value) value {
		_, err := ex.nodeOfBytes(a[0])
		return err == nil
	})
}

var _ = utf8.RuneError
