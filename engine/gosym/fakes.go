package gosym

import "go/types"

func zeroOfKind(k types.BasicKind) value {
	return zero(types.Typ[k])
}

// registerFakes declares the dynamic types of stubbed foreign objects.
func registerFakes(p *Program) {
	for _, name := range []string{"logr.sink", "rpc2.client", "context.ctx", "prometheus.metric", "time.timer", "lazyjson", "hash.sha256", "net.conn", "rpc2.codec"} {
		p.fakes[name] = &fakeType{name: name}
	}
}
