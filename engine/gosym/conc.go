package gosym

// Channels, select, goroutines (single logical thread) and the lock model.

import (
	"fmt"
	"go/types"
	"math"

	"golang.org/x/tools/go/ssa"
)

func floatBits(f float64) uint64 { return math.Float64bits(f) }

func blocked(why string) engineAbort { return engineAbort{"blocked", why} }

func (ex *exec) chanSend(c *gochan, v value) {
	if c == nil {
		panic(blocked("send on nil channel"))
	}
	if c.elemT != nil && needsCopy(c.elemT) {
		v = copyVal(c.elemT, v)
	}
	if c.closed {
		panic(runtimeError("send on closed channel"))
	}
	if len(c.buf) < c.cap {
		c.buf = append(c.buf, v)
		return
	}
	// unbuffered or full: give pending goroutines a chance to drain, then give up
	if !ex.inGo {
		ex.runPending()
		if len(c.buf) < c.cap {
			c.buf = append(c.buf, v)
			return
		}
	}
	if c.cap == 0 {
		// rendezvous with a receiver that is not modelled: keep the value for a later receive
		c.buf = append(c.buf, v)
		return
	}
	panic(blocked("send on full channel"))
}

func (ex *exec) chanRecv(c *gochan, elemT types.Type, commaOk bool) value {
	if c == nil {
		panic(blocked("receive from nil channel"))
	}
	if len(c.buf) == 0 && !c.closed && !ex.inGo {
		ex.runPending()
	}
	var v value
	ok := true
	switch {
	case len(c.buf) > 0:
		v = c.buf[0]
		c.buf = c.buf[1:]
	case c.closed:
		v = zero(elemT)
		ok = false
	default:
		panic(blocked("receive from empty channel"))
	}
	if commaOk {
		return tuple{v, ok}
	}
	return v
}

func (ex *exec) selectInstr(fr *frame, instr *ssa.Select) value {
	type cand struct {
		idx int
	}
	var ready []int
	for i, st := range instr.States {
		c, _ := fr.get(st.Chan).(*gochan)
		if c == nil {
			continue
		}
		if st.Dir == types.RecvOnly {
			if len(c.buf) > 0 || c.closed || c.mayFire {
				ready = append(ready, i)
			}
		} else {
			if c.closed || len(c.buf) < c.cap || c.cap == 0 {
				ready = append(ready, i)
			}
		}
	}
	chosen := -1
	if len(ready) == 1 && instr.Blocking {
		chosen = ready[0]
	} else if len(ready) > 0 {
		// Go picks uniformly among ready cases; a non-blocking select with ready cases never takes default,
		// except for "may fire" channels (timers, ctx.Done) which may also be not ready.
		n := len(ready)
		extra := 0
		for _, i := range ready {
			c := fr.get(instr.States[i].Chan).(*gochan)
			if c.mayFire && len(c.buf) == 0 && !c.closed {
				extra = 1
			}
		}
		if !instr.Blocking || extra == 1 {
			opts := make([]*Term, n+extra)
			for i := range opts {
				opts[i] = ex.tt.Bool(true)
			}
			k := 0
			if len(opts) > 1 {
				k = ex.decide("select", opts)
				ex.schedNondet = true
			}
			if k < n {
				chosen = ready[k]
			}
		} else {
			opts := make([]*Term, n)
			for i := range opts {
				opts[i] = ex.tt.Bool(true)
			}
			chosen = ready[ex.decide("select", opts)]
			ex.schedNondet = true
		}
	}
	if chosen < 0 {
		if instr.Blocking {
			if !ex.inGo && len(ex.pending) > 0 {
				ex.runPending()
				return ex.selectInstr(fr, instr)
			}
			panic(blocked("select with no ready case"))
		}
	}
	recvOk := false
	var recvV value
	if chosen >= 0 {
		st := instr.States[chosen]
		c := fr.get(st.Chan).(*gochan)
		if st.Dir == types.RecvOnly {
			switch {
			case len(c.buf) > 0:
				recvV, recvOk = c.buf[0], true
				c.buf = c.buf[1:]
			case c.closed:
				recvV, recvOk = zero(c.elemT), false
			default: // mayFire
				recvV, recvOk = zero(c.elemT), true
			}
		} else {
			if c.closed {
				panic(runtimeError("send on closed channel"))
			}
			c.buf = append(c.buf, fr.get(st.Send))
		}
	}
	r := tuple{chosen, recvOk}
	for i, st := range instr.States {
		if st.Dir == types.RecvOnly {
			var v value
			if i == chosen {
				v = recvV
			} else {
				v = zero(st.Chan.Type().Underlying().(*types.Chan).Elem())
			}
			r = append(r, v)
		}
	}
	return r
}

// spawn records a goroutine; it runs to completion (or until it blocks) at the next scheduling point.
func (ex *exec) spawn(fr *frame, instr *ssa.Go, fn value, args []value) {
	ex.pending = append(ex.pending, func() { ex.call(nil, instr.Pos(), fn, args) })
}

// runPending runs queued goroutines one after another; a goroutine that blocks is abandoned.
func (ex *exec) runPending() {
	for len(ex.pending) > 0 {
		g := ex.pending[0]
		ex.pending = ex.pending[1:]
		ex.runGo(g)
	}
}

func (ex *exec) runGo(g func()) {
	saved := ex.inGo
	savedDepth := ex.depth
	ex.inGo = true
	defer func() {
		ex.inGo = saved
		ex.depth = savedDepth
		if r := recover(); r != nil {
			if ea, ok := r.(engineAbort); ok && ea.kind == "blocked" {
				ex.blockedGo++
				return
			}
			panic(r)
		}
	}()
	g()
}

// ---------------------------------------------------------------------
// locks

type heldLock struct {
	ptr    *value
	write  bool
	count  int
	site   string
	inGo   bool
}

func (ex *exec) findLock(p *value) *heldLock {
	for _, h := range ex.held {
		if h.ptr == p {
			return h
		}
	}
	return nil
}

func (ex *exec) lockSite(fr *frame) string {
	for f := fr; f != nil; f = f.caller {
		if f.cur != nil && f.cur.Pos().IsValid() {
			ps := ex.prog.Fset.Position(f.cur.Pos())
			return fmt.Sprintf("%s:%d", shortFile(ps.Filename), ps.Line)
		}
	}
	return ""
}

func (ex *exec) lockAcquire(fr *frame, p *value, write bool) {
	if p == nil {
		panic(runtimeError("invalid memory address or nil pointer dereference"))
	}
	h := ex.findLock(p)
	if h == nil {
		ex.held = append(ex.held, &heldLock{ptr: p, write: write, count: 1, site: ex.lockSite(fr), inGo: ex.inGo})
		return
	}
	if !write && !h.write {
		h.count++
		return
	}
	if ex.inGo != h.inGo {
		panic(blocked("lock held by another logical thread"))
	}
	// self-deadlock on a single logical thread
	site := ex.lockSite(fr)
	ex.stats.assertQ++
	r, model := ex.check(nil, true)
	if r == Sat {
		fnName := ""
		if fr != nil {
			fnName = fr.fn.String()
		}
		ex.recordFailure("deadlock", "deadlock:"+fnName+":relock of lock taken at "+h.site, "lock acquired while already held by the same thread (taken at "+h.site+")", site, nil, model)
	}
	panic(engineAbort{"done", "deadlock"})
}

func (ex *exec) lockRelease(fr *frame, p *value, write bool) {
	if p == nil {
		panic(runtimeError("invalid memory address or nil pointer dereference"))
	}
	h := ex.findLock(p)
	if h == nil || h.write != write {
		site := ex.lockSite(fr)
		ex.stats.assertQ++
		r, model := ex.check(nil, true)
		if r == Sat {
			fnName := ""
			if fr != nil {
				fnName = fr.fn.String()
			}
			ex.recordFailure("lock", "unlock-of-unlocked:"+fnName, "sync: unlock of unlocked mutex", site, nil, model)
		}
		panic(engineAbort{"done", "unlock of unlocked mutex"})
	}
	h.count--
	if h.count == 0 {
		for i, x := range ex.held {
			if x == h {
				ex.held = append(ex.held[:i], ex.held[i+1:]...)
				break
			}
		}
	}
}

// mapOrderSite returns a permutation of entries if iteration order is a decision at the current site.
func (ex *exec) mapOrder(fr *frame, entries []*mentry) []*mentry {
	if len(ex.orderSites) == 0 || len(entries) < 2 || fr == nil {
		return entries
	}
	name := fr.fn.String()
	if !ex.orderSites[name] {
		return entries
	}
	rest := append([]*mentry(nil), entries...)
	out := make([]*mentry, 0, len(entries))
	for len(rest) > 1 {
		opts := make([]*Term, len(rest))
		for i := range opts {
			opts[i] = ex.tt.Bool(true)
		}
		k := ex.decide("order", opts)
		ex.schedNondet = true
		out = append(out, rest[k])
		rest = append(rest[:k], rest[k+1:]...)
	}
	return append(out, rest[0])
}
