package gosym

// Channels, select, goroutines (single logical thread) and the lock model.

import (
	"fmt"
	"go/types"
	"math"

	"golang.org/x/tools/go/ssa"
)

func floatBits(f float64) uint64 { return math.Float64bits(f) }

func blocked(why string) engineAbort { return engineAbort{"blocked", why} }

func (ex *exec) chanSend(c *gochan, v value) {
	if c == nil {
		for {
			ex.park("send on nil channel")
		}
	}
	if c.elemT != nil && needsCopy(c.elemT) {
		v = copyVal(c.elemT, v)
	}
	for {
		if c.closed {
			panic(runtimeError("send on closed channel"))
		}
		if len(c.buf) < c.cap {
			c.buf = append(c.buf, v)
			return
		}
		if c.cap == 0 && c.recvWaiting > 0 && len(c.buf) == 0 {
			// rendezvous: a receiver is parked on this channel
			c.buf = append(c.buf, v)
			return
		}
		ex.park("send on full channel")
	}
}

func (ex *exec) chanRecv(c *gochan, elemT types.Type, commaOk bool) value {
	if c == nil {
		for {
			ex.park("receive from nil channel")
		}
	}
	for {
		var v value
		ok := true
		switch {
		case len(c.buf) > 0:
			v = c.buf[0]
			c.buf = c.buf[1:]
		case c.closed:
			v = zero(elemT)
			ok = false
		default:
			c.recvWaiting++
			ex.park("receive from empty channel")
			c.recvWaiting--
			continue
		}
		if commaOk {
			return tuple{v, ok}
		}
		return v
	}
}

func (ex *exec) selectInstr(fr *frame, instr *ssa.Select) value {
	type cand struct {
		idx int
	}
	var ready []int
	for i, st := range instr.States {
		c, _ := fr.get(st.Chan).(*gochan)
		if c == nil {
			continue
		}
		if st.Dir == types.RecvOnly {
			if len(c.buf) > 0 || c.closed || c.mayFire {
				ready = append(ready, i)
			}
		} else {
			if c.closed || len(c.buf) < c.cap || (c.cap == 0 && c.recvWaiting > 0 && len(c.buf) == 0) {
				ready = append(ready, i)
			}
		}
	}
	chosen := -1
	if len(ready) == 1 && instr.Blocking {
		chosen = ready[0]
	} else if len(ready) > 0 {
		// Go picks uniformly among ready cases; a non-blocking select with ready cases never takes default,
		// except for "may fire" channels (timers, ctx.Done) which may also be not ready.
		n := len(ready)
		extra := 0
		for _, i := range ready {
			c := fr.get(instr.States[i].Chan).(*gochan)
			if c.mayFire && len(c.buf) == 0 && !c.closed {
				extra = 1
			}
		}
		if !instr.Blocking || extra == 1 {
			opts := make([]*Term, n+extra)
			for i := range opts {
				opts[i] = ex.tt.Bool(true)
			}
			k := 0
			if len(opts) > 1 {
				k = ex.decide("select", opts)
				ex.schedNondet = true
			}
			if k < n {
				chosen = ready[k]
			}
		} else {
			opts := make([]*Term, n)
			for i := range opts {
				opts[i] = ex.tt.Bool(true)
			}
			chosen = ready[ex.decide("select", opts)]
			ex.schedNondet = true
		}
	}
	if chosen < 0 {
		if instr.Blocking {
			for _, st := range instr.States {
				if c, _ := fr.get(st.Chan).(*gochan); c != nil && st.Dir == types.RecvOnly {
					c.recvWaiting++
				}
			}
			ex.park("select with no ready case")
			for _, st := range instr.States {
				if c, _ := fr.get(st.Chan).(*gochan); c != nil && st.Dir == types.RecvOnly {
					c.recvWaiting--
				}
			}
			return ex.selectInstr(fr, instr)
		}
	}
	recvOk := false
	var recvV value
	if chosen >= 0 {
		st := instr.States[chosen]
		c := fr.get(st.Chan).(*gochan)
		if st.Dir == types.RecvOnly {
			switch {
			case len(c.buf) > 0:
				recvV, recvOk = c.buf[0], true
				c.buf = c.buf[1:]
			case c.closed:
				recvV, recvOk = zero(c.elemT), false
			default: // mayFire
				recvV, recvOk = zero(c.elemT), true
			}
		} else {
			if c.closed {
				panic(runtimeError("send on closed channel"))
			}
			c.buf = append(c.buf, fr.get(st.Send))
		}
	}
	r := tuple{chosen, recvOk}
	for i, st := range instr.States {
		if st.Dir == types.RecvOnly {
			var v value
			if i == chosen {
				v = recvV
			} else {
				v = zero(st.Chan.Type().Underlying().(*types.Chan).Elem())
			}
			r = append(r, v)
		}
	}
	return r
}

// Logical threads: every `go` statement creates a coroutine (a real goroutine that only ever runs while it holds
// the baton). A thread that would block parks and hands the baton back; the scheduler resumes parked threads
// round-robin whenever the running thread parks or asks for it (verifrt.RunPending). Which thread runs first
// among several runnable ones is fixed (creation order): schedules are not explored.
type coro struct {
	id     int
	resume chan bool // true: run; false: unwind and exit
	yield  chan coroMsg
	done   bool
	depth  int
	start  func()
	// waitLock is the lock this thread is parked on (nil if it is not waiting for a lock)
	waitLock *value
}

type coroMsg struct {
	kind int // 0 parked, 1 finished, 2 panicked
	val  interface{}
}

type coroKilled struct{}

func (ex *exec) spawn(fr *frame, instr *ssa.Go, fn value, args []value) {
	c := &coro{id: len(ex.coros) + 1, resume: make(chan bool), yield: make(chan coroMsg)}
	c.start = func() { ex.call(nil, instr.Pos(), fn, args) }
	ex.coros = append(ex.coros, c)
	go func() {
		if ok := <-c.resume; !ok {
			c.yield <- coroMsg{kind: 1}
			return
		}
		defer func() {
			r := recover()
			switch {
			case r == nil:
				c.yield <- coroMsg{kind: 1}
			default:
				if _, killed := r.(coroKilled); killed {
					c.yield <- coroMsg{kind: 1}
				} else {
					c.yield <- coroMsg{kind: 2, val: r}
				}
			}
		}()
		c.start()
	}()
}

// switchTo runs coroutine c until it parks, finishes or panics. Returns whether it executed any instruction.
func (ex *exec) switchTo(c *coro) bool {
	prev, prevDepth := ex.cur, ex.depth
	before := ex.steps
	ex.cur = c
	ex.depth = c.depth
	c.resume <- true
	msg := <-c.yield
	c.depth = ex.depth
	ex.cur, ex.depth = prev, prevDepth
	switch msg.kind {
	case 1:
		c.done = true
	case 2:
		c.done = true
		if ea, ok := msg.val.(engineAbort); ok {
			panic(ea)
		}
		if ie, ok := msg.val.(internalError); ok {
			panic(ie)
		}
		// an uncaught target panic in a goroutine crashes the program
		ex.goPanic = msg.val
		panic(msg.val)
	}
	return ex.steps > before
}

// runPending lets the other logical threads run until none of them can make progress.
func (ex *exec) runPending() {
	if ex.scheduling {
		return
	}
	ex.scheduling = true
	defer func() { ex.scheduling = false }()
	for progress := true; progress; {
		progress = false
		for i := 0; i < len(ex.coros); i++ {
			c := ex.coros[i]
			if c.done || c == ex.cur {
				continue
			}
			if ex.switchTo(c) {
				progress = true
			}
		}
	}
}

// park is called by a thread that cannot proceed: a coroutine hands the baton back and waits to be resumed (the
// caller then retries); the main thread first lets the others run and gives up if that changes nothing.
func (ex *exec) park(why string) {
	if c := ex.cur; c != nil {
		c.yield <- coroMsg{kind: 0}
		if ok := <-c.resume; !ok {
			panic(coroKilled{})
		}
		return
	}
	before := ex.steps
	ex.runPending()
	if ex.steps == before {
		panic(blocked(why))
	}
	ex.mainParks++
	if ex.mainParks > 10000 {
		panic(engineAbort{"incomplete", "main thread parked too often (livelock)"})
	}
}

// yieldPoint is a preemption point (verifrt.Yield): if another logical thread could run now, whether the running
// thread goes on or lets the others run first is a decision, so both schedules are explored. Threads parked on a
// lock that is still held are not runnable and create no decision.
func (ex *exec) yieldPoint() {
	if ex.scheduling && ex.cur == nil {
		return
	}
	runnable := false
	for _, c := range ex.coros {
		if c.done || c == ex.cur {
			continue
		}
		if c.waitLock != nil && ex.findLock(c.waitLock) != nil {
			continue
		}
		runnable = true
	}
	if !runnable {
		return
	}
	opts := []*Term{ex.tt.Bool(true), ex.tt.Bool(true)}
	k := ex.decide("sched", opts)
	ex.schedNondet = true
	if k == 0 {
		return
	}
	if c := ex.cur; c != nil {
		c.yield <- coroMsg{kind: 0}
		if ok := <-c.resume; !ok {
			panic(coroKilled{})
		}
		return
	}
	ex.runPending()
}

// killCoros unwinds every logical thread still alive at the end of a path.
func (ex *exec) killCoros() {
	for _, c := range ex.coros {
		if c.done {
			continue
		}
		c.resume <- false
		<-c.yield
		c.done = true
	}
	ex.coros = nil
}

// ---------------------------------------------------------------------
// locks

type heldLock struct {
	ptr   *value
	write bool
	count int
	site  string
	fn    string // function that took it
	owner *coro  // logical thread that took it (nil = main)
}

func (ex *exec) findLock(p *value) *heldLock {
	for _, h := range ex.held {
		if h.ptr == p {
			return h
		}
	}
	return nil
}

func (ex *exec) lockSite(fr *frame) string {
	for f := fr; f != nil; f = f.caller {
		if f.cur != nil && f.cur.Pos().IsValid() {
			ps := ex.prog.Fset.Position(f.cur.Pos())
			return fmt.Sprintf("%s:%d", shortFile(ps.Filename), ps.Line)
		}
	}
	return ""
}

func (ex *exec) lockAcquire(fr *frame, p *value, write bool) {
	if p == nil {
		panic(runtimeError("invalid memory address or nil pointer dereference"))
	}
	h := ex.findLock(p)
	for h != nil && h.owner != ex.cur && (write || h.write) {
		// held by another logical thread: wait for it
		if ex.cur != nil {
			ex.cur.waitLock = p
		}
		ex.park("lock held by another logical thread")
		if ex.cur != nil {
			ex.cur.waitLock = nil
		}
		h = ex.findLock(p)
	}
	if h == nil {
		fnName := ""
		if fr != nil {
			fnName = fr.fn.String()
		}
		ex.held = append(ex.held, &heldLock{ptr: p, write: write, count: 1, site: ex.lockSite(fr), fn: fnName, owner: ex.cur})
		return
	}
	if !write && !h.write {
		if h.owner == ex.cur && ex.cfg.RecursiveRLock {
			// sync.RWMutex: a read lock taken while the same goroutine already holds one deadlocks as soon as a
			// writer asks for the lock in between (recursive read locking is prohibited)
			site := ex.lockSite(fr)
			ex.stats.assertQ++
			r, model := ex.check(nil, true)
			if r == Sat {
				fnName := ""
				if fr != nil {
					fnName = fr.fn.String()
				}
				ex.recordFailure("deadlock", "deadlock:"+fnName+":recursive read lock of lock taken in "+h.fn, "read lock acquired while the same thread already holds it for reading (taken at "+h.site+"): deadlocks with a pending writer", site, nil, model)
			}
			panic(engineAbort{"done", "recursive read lock"})
		}
		h.count++
		return
	}
	// self-deadlock on a single logical thread
	site := ex.lockSite(fr)
	ex.stats.assertQ++
	r, model := ex.check(nil, true)
	if r == Sat {
		fnName := ""
		if fr != nil {
			fnName = fr.fn.String()
		}
		ex.recordFailure("deadlock", "deadlock:"+fnName+":relock of lock taken in "+h.fn, "lock acquired while already held by the same thread (taken at "+h.site+")", site, nil, model)
	}
	panic(engineAbort{"done", "deadlock"})
}

func (ex *exec) lockRelease(fr *frame, p *value, write bool) {
	if p == nil {
		panic(runtimeError("invalid memory address or nil pointer dereference"))
	}
	h := ex.findLock(p)
	if h == nil || h.write != write {
		site := ex.lockSite(fr)
		ex.stats.assertQ++
		r, model := ex.check(nil, true)
		if r == Sat {
			fnName := ""
			if fr != nil {
				fnName = fr.fn.String()
			}
			ex.recordFailure("lock", "unlock-of-unlocked:"+fnName, "sync: unlock of unlocked mutex", site, nil, model)
		}
		panic(engineAbort{"done", "unlock of unlocked mutex"})
	}
	h.count--
	if h.count == 0 {
		for i, x := range ex.held {
			if x == h {
				ex.held = append(ex.held[:i], ex.held[i+1:]...)
				break
			}
		}
	}
}

// mapOrderSite returns a permutation of entries if iteration order is a decision at the current site.
func (ex *exec) mapOrder(fr *frame, entries []*mentry) []*mentry {
	if len(ex.orderSites) == 0 || len(entries) < 2 || fr == nil {
		return entries
	}
	name := fr.fn.String()
	if !ex.orderSites[name] {
		// "callee@caller": only when called from that function
		c := fr.caller
		for c != nil && c.fn.Synthetic != "" { // promoted-method wrappers, thunks
			c = c.caller
		}
		if c == nil || !ex.orderSites[name+"@"+c.fn.String()] {
			return entries
		}
	}
	rest := append([]*mentry(nil), entries...)
	out := make([]*mentry, 0, len(entries))
	for len(rest) > 1 {
		opts := make([]*Term, len(rest))
		for i := range opts {
			opts[i] = ex.tt.Bool(true)
		}
		k := ex.decide("order", opts)
		ex.schedNondet = true
		out = append(out, rest[k])
		rest = append(rest[:k], rest[k+1:]...)
	}
	return append(out, rest[0])
}
