package gosym

// Model of package reflect over the executor's typed heap.

import (
	"fmt"
	"go/types"
	"reflect"
	"strings"

	"golang.org/x/tools/go/ssa"
)

// rvalue is the executor's reflect.Value.
type rvalue struct {
	t    types.Type // nil = invalid Value
	v    value      // when addr == nil
	addr *value     // addressable: the slot
	ro   bool
}

func (r rvalue) get() value {
	if r.addr != nil {
		return load(r.t, r.addr)
	}
	return r.v
}

func (r rvalue) valid() bool { return r.t != nil }

var allIntrinsics = map[string]intrinsic{}

func reg(name string, f intrinsic) { allIntrinsics[name] = f }

func kindOfType(t types.Type) reflect.Kind {
	if t == nil {
		return reflect.Invalid
	}
	switch u := t.Underlying().(type) {
	case *types.Basic:
		switch u.Kind() {
		case types.Bool:
			return reflect.Bool
		case types.Int:
			return reflect.Int
		case types.Int8:
			return reflect.Int8
		case types.Int16:
			return reflect.Int16
		case types.Int32:
			return reflect.Int32
		case types.Int64:
			return reflect.Int64
		case types.Uint:
			return reflect.Uint
		case types.Uint8:
			return reflect.Uint8
		case types.Uint16:
			return reflect.Uint16
		case types.Uint32:
			return reflect.Uint32
		case types.Uint64:
			return reflect.Uint64
		case types.Uintptr:
			return reflect.Uintptr
		case types.Float32:
			return reflect.Float32
		case types.Float64:
			return reflect.Float64
		case types.Complex64:
			return reflect.Complex64
		case types.Complex128:
			return reflect.Complex128
		case types.String:
			return reflect.String
		case types.UnsafePointer:
			return reflect.UnsafePointer
		}
	case *types.Array:
		return reflect.Array
	case *types.Chan:
		return reflect.Chan
	case *types.Signature:
		return reflect.Func
	case *types.Interface:
		return reflect.Interface
	case *types.Map:
		return reflect.Map
	case *types.Pointer:
		return reflect.Ptr
	case *types.Slice:
		return reflect.Slice
	case *types.Struct:
		return reflect.Struct
	case *fakeType:
		return reflect.Ptr
	}
	return reflect.Invalid
}

func (p *Program) rtypeIface(t types.Type) value {
	if t == nil {
		return iface{}
	}
	return iface{t: p.fake("reflect.rtype"), v: rtype{t}}
}

func asRType(v value) types.Type {
	switch v := v.(type) {
	case iface:
		if v.t == nil {
			panic(runtimeError("invalid memory address or nil pointer dereference (nil reflect.Type)"))
		}
		return v.v.(rtype).t
	case rtype:
		return v.t
	}
	panic(fmt.Sprintf("asRType: %T", v))
}

func reflectTypeString(t types.Type) string {
	s := typeString(t)
	s = strings.ReplaceAll(s, "interface{}", "interface {}")
	s = strings.ReplaceAll(s, "any", "interface {}")
	return s
}

func reflectPanic(method string, k reflect.Kind) runtimeError {
	return runtimeError(fmt.Sprintf("reflect: call of %s on %s Value", method, k))
}

// assignTo converts x for storage into a slot of type dst (interface wrapping only).
func assignTo(dst types.Type, x rvalue) value {
	if !x.valid() {
		panic(runtimeError("reflect: call of reflect.Value.Set on zero Value"))
	}
	if types.IsInterface(dst) && !types.IsInterface(x.t) {
		return iface{t: x.t, v: x.get()}
	}
	if !types.IsInterface(dst) && !identical(dst, x.t) && !types.AssignableTo(x.t, dst) {
		panic(runtimeError(fmt.Sprintf("reflect.Set: value of type %s is not assignable to type %s", reflectTypeString(x.t), reflectTypeString(dst))))
	}
	return x.get()
}

func (ex *exec) ptrID(p interface{}) uintptr {
	if ex.ptrIDs == nil {
		ex.ptrIDs = map[interface{}]uintptr{}
	}
	if id, ok := ex.ptrIDs[p]; ok {
		return id
	}
	id := uintptr(0xc000000000 + 65536*len(ex.ptrIDs) + 65536)
	ex.ptrIDs[p] = id
	return id
}

type structPtr struct {
	p    *value
	offs []int64
}

// ptrIDOf gives pointers into one struct variable addresses that differ by the field offsets (code that
// identifies a field by pointer arithmetic, mapper.Info.ColumnByPtr).
func (ex *exec) ptrIDOf(x *value, t types.Type) uintptr {
	if id, ok := ex.ptrIDs[x]; ok {
		return id
	}
	if pt, ok := t.Underlying().(*types.Pointer); ok {
		if u, ok := pt.Elem().Underlying().(*types.Struct); ok {
			if st, ok := (*x).(structure); ok && len(st) > 0 {
				offs := ex.sizes.Offsetsof(structFields(u))
				for i := range st {
					if id, ok := ex.ptrIDs[&st[i]]; ok {
						base := id - uintptr(offs[i])
						ex.ptrIDs[x] = base
						ex.structPtrs = append(ex.structPtrs, structPtr{x, offs})
						return base
					}
				}
				base := ex.ptrID(x)
				ex.structPtrs = append(ex.structPtrs, structPtr{x, offs})
				return base
			}
		}
	}
	for _, sp := range ex.structPtrs {
		if st, ok := (*sp.p).(structure); ok {
			for i := range st {
				if &st[i] == x {
					id := ex.ptrIDs[sp.p] + uintptr(sp.offs[i])
					ex.ptrIDs[x] = id
					return id
				}
			}
		}
	}
	return ex.ptrID(x)
}

type rmapIter struct {
	entries []*mentry
	i       int
	keyT    types.Type
	elemT   types.Type
	cur     *mentry
}

func (ex *exec) rcall(name string, args ...value) value {
	return allIntrinsics[name](ex, nil, nil, args)
}

func init() {
	reg("reflect.ValueOf", func(ex *exec, fr *frame, fn *ssa.Function, a []value) value {
		i := ex.force(a[0].(iface))
		if i.t == nil {
			return rvalue{}
		}
		return rvalue{t: i.t, v: i.v}
	})
	reg("reflect.TypeOf", func(ex *exec, fr *frame, fn *ssa.Function, a []value) value {
		i := ex.force(a[0].(iface))
		return ex.rtypeIface(i.t)
	})
	reg("reflect.Zero", func(ex *exec, fr *frame, fn *ssa.Function, a []value) value {
		t := asRType(a[0])
		return rvalue{t: t, v: zero(t)}
	})
	reg("reflect.New", func(ex *exec, fr *frame, fn *ssa.Function, a []value) value {
		t := asRType(a[0])
		slot := new(value)
		*slot = zero(t)
		return rvalue{t: types.NewPointer(t), v: slot}
	})
	reg("reflect.Indirect", func(ex *exec, fr *frame, fn *ssa.Function, a []value) value {
		r := a[0].(rvalue)
		if kindOfType(r.t) != reflect.Ptr {
			return r
		}
		return ex.rcall("(reflect.Value).Elem", r)
	})
	reg("reflect.SliceOf", func(ex *exec, fr *frame, fn *ssa.Function, a []value) value {
		return ex.rtypeIface(types.NewSlice(asRType(a[0])))
	})
	reg("reflect.MapOf", func(ex *exec, fr *frame, fn *ssa.Function, a []value) value {
		return ex.rtypeIface(types.NewMap(asRType(a[0]), asRType(a[1])))
	})
	ptrTo := func(ex *exec, fr *frame, fn *ssa.Function, a []value) value {
		return ex.rtypeIface(types.NewPointer(asRType(a[0])))
	}
	reg("reflect.PtrTo", ptrTo)
	reg("reflect.PointerTo", ptrTo)
	reg("reflect.MakeSlice", func(ex *exec, fr *frame, fn *ssa.Function, a []value) value {
		t := asRType(a[0])
		l, c := ex.concInt(a[1], 64), ex.concInt(a[2], 64)
		if l < 0 || c < l {
			panic(runtimeError("reflect.MakeSlice: len > cap"))
		}
		return rvalue{t: t, v: makeSlice(t.Underlying().(*types.Slice).Elem(), int(l), int(c))}
	})
	mkMap := func(ex *exec, fr *frame, fn *ssa.Function, a []value) value {
		t := asRType(a[0])
		return rvalue{t: t, v: makeMap(t.Underlying().(*types.Map).Key())}
	}
	reg("reflect.MakeMap", mkMap)
	reg("reflect.MakeMapWithSize", mkMap)
	reg("reflect.Append", func(ex *exec, fr *frame, fn *ssa.Function, a []value) value {
		s := a[0].(rvalue)
		st, ok := s.t.Underlying().(*types.Slice)
		if !ok {
			panic(reflectPanic("reflect.Append", kindOfType(s.t)))
		}
		xs := a[1].([]value)
		els := make([]value, len(xs))
		for i, x := range xs {
			els[i] = assignTo(st.Elem(), x.(rvalue))
		}
		sv, _ := s.get().([]value)
		return rvalue{t: s.t, v: ex.appendValues(st.Elem(), sv, els)}
	})
	reg("reflect.AppendSlice", func(ex *exec, fr *frame, fn *ssa.Function, a []value) value {
		s := a[0].(rvalue)
		t := a[1].(rvalue)
		st := s.t.Underlying().(*types.Slice)
		sv, _ := s.get().([]value)
		tv, _ := t.get().([]value)
		return rvalue{t: s.t, v: ex.appendValues(st.Elem(), sv, tv)}
	})
	reg("reflect.DeepEqual", func(ex *exec, fr *frame, fn *ssa.Function, a []value) value {
		x, y := ex.force(a[0].(iface)), ex.force(a[1].(iface))
		if x.t == nil || y.t == nil {
			return x.t == nil && y.t == nil
		}
		if !identical(x.t, y.t) {
			return false
		}
		return boolVal(ex.deepEq(x.t, x.v, y.v, 0))
	})

	// ---- Value methods ----
	reg("(reflect.Value).Kind", func(ex *exec, fr *frame, fn *ssa.Function, a []value) value {
		return uint(kindOfType(a[0].(rvalue).t))
	})
	reg("(reflect.Value).IsValid", func(ex *exec, fr *frame, fn *ssa.Function, a []value) value {
		return a[0].(rvalue).valid()
	})
	reg("(reflect.Value).Type", func(ex *exec, fr *frame, fn *ssa.Function, a []value) value {
		r := a[0].(rvalue)
		if !r.valid() {
			panic(reflectPanic("reflect.Value.Type", reflect.Invalid))
		}
		return ex.rtypeIface(r.t)
	})
	reg("(reflect.Value).Interface", func(ex *exec, fr *frame, fn *ssa.Function, a []value) value {
		r := a[0].(rvalue)
		if !r.valid() {
			panic(reflectPanic("reflect.Value.Interface", reflect.Invalid))
		}
		if r.ro {
			panic(runtimeError("reflect.Value.Interface: cannot return value obtained from unexported field or method"))
		}
		if types.IsInterface(r.t) {
			return r.get()
		}
		return iface{t: r.t, v: r.get()}
	})
	reg("(reflect.Value).CanInterface", func(ex *exec, fr *frame, fn *ssa.Function, a []value) value {
		return !a[0].(rvalue).ro
	})
	reg("(reflect.Value).CanAddr", func(ex *exec, fr *frame, fn *ssa.Function, a []value) value {
		return a[0].(rvalue).addr != nil
	})
	reg("(reflect.Value).CanSet", func(ex *exec, fr *frame, fn *ssa.Function, a []value) value {
		r := a[0].(rvalue)
		return r.addr != nil && !r.ro
	})
	reg("(reflect.Value).Addr", func(ex *exec, fr *frame, fn *ssa.Function, a []value) value {
		r := a[0].(rvalue)
		if r.addr == nil {
			panic(runtimeError("reflect.Value.Addr of unaddressable value"))
		}
		return rvalue{t: types.NewPointer(r.t), v: r.addr}
	})
	reg("(reflect.Value).Elem", func(ex *exec, fr *frame, fn *ssa.Function, a []value) value {
		r := a[0].(rvalue)
		switch kindOfType(r.t) {
		case reflect.Ptr:
			p, _ := r.get().(*value)
			if p == nil {
				return rvalue{}
			}
			return rvalue{t: r.t.Underlying().(*types.Pointer).Elem(), addr: p, ro: r.ro}
		case reflect.Interface:
			i := ex.force(r.get().(iface))
			if i.t == nil {
				return rvalue{}
			}
			return rvalue{t: i.t, v: i.v, ro: r.ro}
		}
		panic(reflectPanic("reflect.Value.Elem", kindOfType(r.t)))
	})
	reg("(reflect.Value).Len", func(ex *exec, fr *frame, fn *ssa.Function, a []value) value {
		r := a[0].(rvalue)
		switch x := r.get().(type) {
		case []value:
			return len(x)
		case *omap:
			return x.len()
		case string:
			return len(x)
		case sym:
			if x.k == types.String {
				return fromTerm(ex.tt.StrLen(x.t), types.Int)
			}
		case array:
			return len(x)
		case *gochan:
			if x == nil {
				return 0
			}
			return len(x.buf)
		case *jsonBlob:
			return len(x.bytes())
		}
		panic(reflectPanic("reflect.Value.Len", kindOfType(r.t)))
	})
	reg("(reflect.Value).Cap", func(ex *exec, fr *frame, fn *ssa.Function, a []value) value {
		r := a[0].(rvalue)
		switch x := r.get().(type) {
		case []value:
			return cap(x)
		case array:
			return len(x)
		}
		panic(reflectPanic("reflect.Value.Cap", kindOfType(r.t)))
	})
	reg("(reflect.Value).Index", func(ex *exec, fr *frame, fn *ssa.Function, a []value) value {
		r := a[0].(rvalue)
		switch u := r.t.Underlying().(type) {
		case *types.Slice:
			s, _ := r.get().([]value)
			i := ex.concInt(a[1], len(s))
			if i < 0 || i >= int64(len(s)) {
				panic(runtimeError("reflect: slice index out of range"))
			}
			return rvalue{t: u.Elem(), addr: &s[i], ro: r.ro}
		case *types.Array:
			if r.addr != nil {
				arr := (*r.addr).(array)
				i := ex.concInt(a[1], len(arr))
				if i < 0 || i >= int64(len(arr)) {
					panic(runtimeError("reflect: array index out of range"))
				}
				return rvalue{t: u.Elem(), addr: &arr[i], ro: r.ro}
			}
			arr := r.v.(array)
			i := ex.concInt(a[1], len(arr))
			if i < 0 || i >= int64(len(arr)) {
				panic(runtimeError("reflect: array index out of range"))
			}
			return rvalue{t: u.Elem(), v: arr[i], ro: r.ro}
		case *types.Basic:
			if s, ok := r.get().(string); ok {
				i := ex.concInt(a[1], len(s))
				if i < 0 || i >= int64(len(s)) {
					panic(runtimeError("reflect: string index out of range"))
				}
				return rvalue{t: types.Typ[types.Uint8], v: s[i]}
			}
		}
		panic(reflectPanic("reflect.Value.Index", kindOfType(r.t)))
	})
	reg("(reflect.Value).Slice", func(ex *exec, fr *frame, fn *ssa.Function, a []value) value {
		r := a[0].(rvalue)
		switch r.t.Underlying().(type) {
		case *types.Slice:
			s, _ := r.get().([]value)
			i, j := ex.concInt(a[1], cap(s)), ex.concInt(a[2], cap(s))
			if i < 0 || j < i || j > int64(cap(s)) {
				panic(runtimeError("reflect.Value.Slice: slice index out of bounds"))
			}
			return rvalue{t: r.t, v: s[i:j]}
		case *types.Basic:
			if s, ok := r.get().(string); ok {
				i, j := ex.concInt(a[1], len(s)), ex.concInt(a[2], len(s))
				if i < 0 || j < i || j > int64(len(s)) {
					panic(runtimeError("reflect.Value.Slice: string slice index out of bounds"))
				}
				return rvalue{t: r.t, v: s[i:j]}
			}
		}
		panic(reflectPanic("reflect.Value.Slice", kindOfType(r.t)))
	})
	reg("(reflect.Value).Set", func(ex *exec, fr *frame, fn *ssa.Function, a []value) value {
		r := a[0].(rvalue)
		if r.addr == nil {
			panic(runtimeError("reflect: reflect.Value.Set using unaddressable value"))
		}
		if r.ro {
			panic(runtimeError("reflect: reflect.Value.Set using value obtained using unexported field"))
		}
		store(r.t, r.addr, assignTo(r.t, a[1].(rvalue)))
		return nil
	})
	setScalar := func(name string) {
		reg("(reflect.Value).Set"+name, func(ex *exec, fr *frame, fn *ssa.Function, a []value) value {
			r := a[0].(rvalue)
			if r.addr == nil || r.ro {
				panic(runtimeError("reflect: reflect.Value.Set" + name + " using unaddressable value"))
			}
			bt, ok := r.t.Underlying().(*types.Basic)
			if !ok {
				panic(reflectPanic("reflect.Value.Set"+name, kindOfType(r.t)))
			}
			var srcT types.Type
			switch name {
			case "Int":
				srcT = types.Typ[types.Int64]
			case "Uint":
				srcT = types.Typ[types.Uint64]
			case "Float":
				srcT = types.Typ[types.Float64]
			case "String":
				srcT = types.Typ[types.String]
			case "Bool":
				srcT = types.Typ[types.Bool]
			}
			*r.addr = ex.conv(bt, srcT, a[1])
			return nil
		})
	}
	for _, n := range []string{"Int", "Uint", "Float", "String", "Bool"} {
		setScalar(n)
	}
	reg("(reflect.Value).SetLen", func(ex *exec, fr *frame, fn *ssa.Function, a []value) value {
		r := a[0].(rvalue)
		s, _ := r.get().([]value)
		n := ex.concInt(a[1], cap(s))
		if n < 0 || n > int64(cap(s)) {
			panic(runtimeError("reflect: slice length out of range in SetLen"))
		}
		*r.addr = s[:n]
		return nil
	})
	reg("(reflect.Value).IsNil", func(ex *exec, fr *frame, fn *ssa.Function, a []value) value {
		r := a[0].(rvalue)
		switch x := r.get().(type) {
		case *value:
			return x == nil
		case *omap:
			return x == nil
		case []value:
			return x == nil
		case *jsonBlob:
			return x == nil
		case iface:
			return ex.force(x).t == nil
		case *gochan:
			return x == nil
		case *ssa.Function, *closure, *intrinsicFn, *ssa.Builtin:
			return isNilFunc(x)
		case *opaque:
			return x == nil
		}
		panic(reflectPanic("reflect.Value.IsNil", kindOfType(r.t)))
	})
	reg("(reflect.Value).IsZero", func(ex *exec, fr *frame, fn *ssa.Function, a []value) value {
		r := a[0].(rvalue)
		if !r.valid() {
			panic(reflectPanic("reflect.Value.IsZero", reflect.Invalid))
		}
		return boolVal(ex.isZeroTerm(r.t, r.get()))
	})
	reg("(reflect.Value).Int", func(ex *exec, fr *frame, fn *ssa.Function, a []value) value {
		r := a[0].(rvalue)
		switch kindOfType(r.t) {
		case reflect.Int, reflect.Int8, reflect.Int16, reflect.Int32, reflect.Int64:
			return ex.conv(types.Typ[types.Int64], r.t, r.get())
		}
		panic(reflectPanic("reflect.Value.Int", kindOfType(r.t)))
	})
	reg("(reflect.Value).Uint", func(ex *exec, fr *frame, fn *ssa.Function, a []value) value {
		r := a[0].(rvalue)
		switch kindOfType(r.t) {
		case reflect.Uint, reflect.Uint8, reflect.Uint16, reflect.Uint32, reflect.Uint64, reflect.Uintptr:
			return ex.conv(types.Typ[types.Uint64], r.t, r.get())
		}
		panic(reflectPanic("reflect.Value.Uint", kindOfType(r.t)))
	})
	reg("(reflect.Value).Float", func(ex *exec, fr *frame, fn *ssa.Function, a []value) value {
		r := a[0].(rvalue)
		switch kindOfType(r.t) {
		case reflect.Float32, reflect.Float64:
			return ex.conv(types.Typ[types.Float64], r.t, r.get())
		}
		panic(reflectPanic("reflect.Value.Float", kindOfType(r.t)))
	})
	reg("(reflect.Value).Bool", func(ex *exec, fr *frame, fn *ssa.Function, a []value) value {
		r := a[0].(rvalue)
		if kindOfType(r.t) != reflect.Bool {
			panic(reflectPanic("reflect.Value.Bool", kindOfType(r.t)))
		}
		return r.get()
	})
	reg("(reflect.Value).String", func(ex *exec, fr *frame, fn *ssa.Function, a []value) value {
		r := a[0].(rvalue)
		if kindOfType(r.t) == reflect.String {
			return r.get()
		}
		if !r.valid() {
			return "<invalid Value>"
		}
		return "<" + reflectTypeString(r.t) + " Value>"
	})
	reg("(reflect.Value).Pointer", func(ex *exec, fr *frame, fn *ssa.Function, a []value) value {
		r := a[0].(rvalue)
		switch x := r.get().(type) {
		case *value:
			if x == nil {
				return uintptr(0)
			}
			return ex.ptrIDOf(x, r.t)
		case []value:
			if cap(x) == 0 {
				if x == nil {
					return uintptr(0)
				}
				return uintptr(0xc000000008)
			}
			return ex.ptrID(&x[:1][0])
		case *omap:
			if x == nil {
				return uintptr(0)
			}
			return ex.ptrID(x)
		case *ssa.Function:
			if x == nil {
				return uintptr(0)
			}
			return ex.ptrID(x)
		case *closure:
			return ex.ptrID(x.Fn)
		case *gochan:
			if x == nil {
				return uintptr(0)
			}
			return ex.ptrID(x)
		}
		panic(reflectPanic("reflect.Value.Pointer", kindOfType(r.t)))
	})
	reg("(reflect.Value).NumField", func(ex *exec, fr *frame, fn *ssa.Function, a []value) value {
		r := a[0].(rvalue)
		st, ok := r.t.Underlying().(*types.Struct)
		if !ok {
			panic(reflectPanic("reflect.Value.NumField", kindOfType(r.t)))
		}
		return st.NumFields()
	})
	reg("(reflect.Value).Field", func(ex *exec, fr *frame, fn *ssa.Function, a []value) value {
		r := a[0].(rvalue)
		st, ok := r.t.Underlying().(*types.Struct)
		if !ok {
			panic(reflectPanic("reflect.Value.Field", kindOfType(r.t)))
		}
		i := int(asInt64(a[1]))
		if i < 0 || i >= st.NumFields() {
			panic(runtimeError("reflect: Field index out of range"))
		}
		return r.field(st, i)
	})
	reg("(reflect.Value).FieldByName", func(ex *exec, fr *frame, fn *ssa.Function, a []value) value {
		r := a[0].(rvalue)
		if _, ok := r.t.Underlying().(*types.Struct); !ok {
			panic(reflectPanic("reflect.Value.FieldByName", kindOfType(r.t)))
		}
		name := a[1].(string)
		obj, index, _ := types.LookupFieldOrMethod(r.t, true, nil, name)
		if _, ok := obj.(*types.Var); !ok || obj == nil {
			// unexported names need the package; try all struct fields directly
			st := r.t.Underlying().(*types.Struct)
			for i := 0; i < st.NumFields(); i++ {
				if st.Field(i).Name() == name {
					return r.field(st, i)
				}
			}
			return rvalue{}
		}
		cur := r
		for _, i := range index {
			if kindOfType(cur.t) == reflect.Ptr {
				p, _ := cur.get().(*value)
				if p == nil {
					panic(runtimeError("reflect: indirection through nil pointer to embedded struct"))
				}
				cur = rvalue{t: cur.t.Underlying().(*types.Pointer).Elem(), addr: p, ro: cur.ro}
			}
			cur = cur.field(cur.t.Underlying().(*types.Struct), i)
		}
		return cur
	})
	reg("(reflect.Value).MapIndex", func(ex *exec, fr *frame, fn *ssa.Function, a []value) value {
		r := a[0].(rvalue)
		mt, ok := r.t.Underlying().(*types.Map)
		if !ok {
			panic(reflectPanic("reflect.Value.MapIndex", kindOfType(r.t)))
		}
		m, _ := r.get().(*omap)
		k := assignTo(mt.Key(), a[1].(rvalue))
		v, found := ex.mapLookup(m, k)
		if !found {
			return rvalue{}
		}
		return rvalue{t: mt.Elem(), v: v, ro: r.ro}
	})
	reg("(reflect.Value).SetMapIndex", func(ex *exec, fr *frame, fn *ssa.Function, a []value) value {
		r := a[0].(rvalue)
		mt, ok := r.t.Underlying().(*types.Map)
		if !ok {
			panic(reflectPanic("reflect.Value.SetMapIndex", kindOfType(r.t)))
		}
		m, _ := r.get().(*omap)
		k := assignTo(mt.Key(), a[1].(rvalue))
		e := a[2].(rvalue)
		if !e.valid() {
			ex.mapDelete(m, k)
			return nil
		}
		nv := assignTo(mt.Elem(), e)
		if needsCopy(mt.Elem()) {
			nv = copyVal(mt.Elem(), nv)
		}
		ex.mapInsert(m, k, nv)
		return nil
	})
	reg("(reflect.Value).MapKeys", func(ex *exec, fr *frame, fn *ssa.Function, a []value) value {
		r := a[0].(rvalue)
		mt, ok := r.t.Underlying().(*types.Map)
		if !ok {
			panic(reflectPanic("reflect.Value.MapKeys", kindOfType(r.t)))
		}
		m, _ := r.get().(*omap)
		entries := ex.mapOrder(fr, m.live())
		out := make([]value, 0, len(entries))
		for _, e := range entries {
			out = append(out, rvalue{t: mt.Key(), v: e.key})
		}
		return out
	})
	reg("(reflect.Value).MapRange", func(ex *exec, fr *frame, fn *ssa.Function, a []value) value {
		r := a[0].(rvalue)
		mt, ok := r.t.Underlying().(*types.Map)
		if !ok {
			panic(reflectPanic("reflect.Value.MapRange", kindOfType(r.t)))
		}
		m, _ := r.get().(*omap)
		it := &rmapIter{entries: ex.mapOrder(fr, m.live()), keyT: mt.Key(), elemT: mt.Elem()}
		slot := new(value)
		*slot = &opaque{kind: "mapiter", data: it}
		return slot
	})
	mapIterOf := func(v value) *rmapIter { return (*v.(*value)).(*opaque).data.(*rmapIter) }
	reg("(*reflect.MapIter).Next", func(ex *exec, fr *frame, fn *ssa.Function, a []value) value {
		it := mapIterOf(a[0])
		for it.i < len(it.entries) {
			e := it.entries[it.i]
			it.i++
			if e.dead {
				continue
			}
			it.cur = e
			return true
		}
		it.cur = nil
		return false
	})
	reg("(*reflect.MapIter).Key", func(ex *exec, fr *frame, fn *ssa.Function, a []value) value {
		it := mapIterOf(a[0])
		return rvalue{t: it.keyT, v: it.cur.key}
	})
	reg("(*reflect.MapIter).Value", func(ex *exec, fr *frame, fn *ssa.Function, a []value) value {
		it := mapIterOf(a[0])
		return rvalue{t: it.elemT, v: it.cur.val}
	})
	reg("(reflect.Value).Convert", func(ex *exec, fr *frame, fn *ssa.Function, a []value) value {
		r := a[0].(rvalue)
		dst := asRType(a[1])
		if !r.valid() {
			panic(reflectPanic("reflect.Value.Convert", reflect.Invalid))
		}
		if !types.ConvertibleTo(r.t, dst) {
			panic(runtimeError("reflect.Value.Convert: value of type " + reflectTypeString(r.t) + " cannot be converted to type " + reflectTypeString(dst)))
		}
		if types.IsInterface(dst) {
			if types.IsInterface(r.t) {
				return rvalue{t: dst, v: r.get()}
			}
			return rvalue{t: dst, v: iface{t: r.t, v: r.get()}}
		}
		_, sb := r.t.Underlying().(*types.Basic)
		_, db := dst.Underlying().(*types.Basic)
		if sb && db {
			return rvalue{t: dst, v: ex.conv(dst, r.t, r.get())}
		}
		if sb != db {
			return rvalue{t: dst, v: ex.conv(dst, r.t, r.get())}
		}
		return rvalue{t: dst, v: r.get()}
	})
	reg("(reflect.Value).Call", func(ex *exec, fr *frame, fn *ssa.Function, a []value) value {
		r := a[0].(rvalue)
		sig, ok := r.t.Underlying().(*types.Signature)
		if !ok {
			panic(reflectPanic("reflect.Value.Call", kindOfType(r.t)))
		}
		in := a[1].([]value)
		args := make([]value, len(in))
		for i, x := range in {
			args[i] = assignTo(sig.Params().At(i).Type(), x.(rvalue))
		}
		res := ex.call(fr, 0, r.get(), args)
		var out []value
		switch sig.Results().Len() {
		case 0:
		case 1:
			out = []value{rvalue{t: sig.Results().At(0).Type(), v: res}}
		default:
			for i, x := range res.(tuple) {
				out = append(out, rvalue{t: sig.Results().At(i).Type(), v: x})
			}
		}
		return out
	})

	// ---- Type methods (dynamic type reflect.rtype) ----
	regT := func(name string, f func(ex *exec, t types.Type, a []value) value) {
		reg("reflect.rtype."+name, func(ex *exec, fr *frame, fn *ssa.Function, a []value) value {
			return f(ex, a[0].(rtype).t, a[1:])
		})
	}
	regT("Kind", func(ex *exec, t types.Type, a []value) value { return uint(kindOfType(t)) })
	regT("String", func(ex *exec, t types.Type, a []value) value { return reflectTypeString(t) })
	regT("Name", func(ex *exec, t types.Type, a []value) value {
		switch t := types.Unalias(t).(type) {
		case *types.Named:
			return t.Obj().Name()
		case *types.Basic:
			return t.Name()
		}
		return ""
	})
	regT("PkgPath", func(ex *exec, t types.Type, a []value) value {
		if n, ok := types.Unalias(t).(*types.Named); ok && n.Obj().Pkg() != nil {
			return n.Obj().Pkg().Path()
		}
		return ""
	})
	regT("Elem", func(ex *exec, t types.Type, a []value) value {
		switch u := t.Underlying().(type) {
		case *types.Pointer:
			return ex.rtypeIface(u.Elem())
		case *types.Slice:
			return ex.rtypeIface(u.Elem())
		case *types.Array:
			return ex.rtypeIface(u.Elem())
		case *types.Map:
			return ex.rtypeIface(u.Elem())
		case *types.Chan:
			return ex.rtypeIface(u.Elem())
		}
		panic(runtimeError("reflect: Elem of invalid type " + reflectTypeString(t)))
	})
	regT("Key", func(ex *exec, t types.Type, a []value) value {
		if u, ok := t.Underlying().(*types.Map); ok {
			return ex.rtypeIface(u.Key())
		}
		panic(runtimeError("reflect: Key of non-map type " + reflectTypeString(t)))
	})
	regT("Len", func(ex *exec, t types.Type, a []value) value {
		if u, ok := t.Underlying().(*types.Array); ok {
			return int(u.Len())
		}
		panic(runtimeError("reflect: Len of non-array type " + reflectTypeString(t)))
	})
	regT("NumField", func(ex *exec, t types.Type, a []value) value {
		if u, ok := t.Underlying().(*types.Struct); ok {
			return u.NumFields()
		}
		panic(runtimeError("reflect: NumField of non-struct type " + reflectTypeString(t)))
	})
	regT("Field", func(ex *exec, t types.Type, a []value) value {
		u, ok := t.Underlying().(*types.Struct)
		if !ok {
			panic(runtimeError("reflect: Field of non-struct type " + reflectTypeString(t)))
		}
		i := int(asInt64(a[0]))
		if i < 0 || i >= u.NumFields() {
			panic(runtimeError("reflect: Field index out of bounds"))
		}
		return ex.structField(u, i)
	})
	regT("FieldByName", func(ex *exec, t types.Type, a []value) value {
		u, ok := t.Underlying().(*types.Struct)
		if !ok {
			panic(runtimeError("reflect: FieldByName of non-struct type " + reflectTypeString(t)))
		}
		name := a[0].(string)
		for i := 0; i < u.NumFields(); i++ {
			if u.Field(i).Name() == name {
				return tuple{ex.structField(u, i), true}
			}
		}
		return tuple{zero(ex.structFieldType()), false}
	})
	regT("NumIn", func(ex *exec, t types.Type, a []value) value {
		return t.Underlying().(*types.Signature).Params().Len()
	})
	regT("In", func(ex *exec, t types.Type, a []value) value {
		return ex.rtypeIface(t.Underlying().(*types.Signature).Params().At(int(asInt64(a[0]))).Type())
	})
	regT("NumOut", func(ex *exec, t types.Type, a []value) value {
		return t.Underlying().(*types.Signature).Results().Len()
	})
	regT("Out", func(ex *exec, t types.Type, a []value) value {
		return ex.rtypeIface(t.Underlying().(*types.Signature).Results().At(int(asInt64(a[0]))).Type())
	})
	regT("NumMethod", func(ex *exec, t types.Type, a []value) value {
		return ex.prog.MethodSets.MethodSet(t).Len()
	})
	regT("Implements", func(ex *exec, t types.Type, a []value) value {
		u := asRType(a[0])
		it, ok := u.Underlying().(*types.Interface)
		if !ok {
			panic(runtimeError("reflect: non-interface type passed to Type.Implements"))
		}
		return types.Implements(t, it)
	})
	regT("AssignableTo", func(ex *exec, t types.Type, a []value) value {
		return types.AssignableTo(t, asRType(a[0]))
	})
	regT("ConvertibleTo", func(ex *exec, t types.Type, a []value) value {
		return types.ConvertibleTo(t, asRType(a[0]))
	})
	regT("Comparable", func(ex *exec, t types.Type, a []value) value {
		return types.Comparable(t)
	})
	regT("Size", func(ex *exec, t types.Type, a []value) value {
		return uintptr(ex.sizes.Sizeof(t))
	})
	regT("Bits", func(ex *exec, t types.Type, a []value) value {
		return int(ex.sizes.Sizeof(t)) * 8
	})

	reg("(reflect.StructTag).Get", func(ex *exec, fr *frame, fn *ssa.Function, a []value) value {
		return reflect.StructTag(a[0].(string)).Get(a[1].(string))
	})
	reg("(reflect.StructTag).Lookup", func(ex *exec, fr *frame, fn *ssa.Function, a []value) value {
		v, ok := reflect.StructTag(a[0].(string)).Lookup(a[1].(string))
		return tuple{v, ok}
	})
	reg("(reflect.Kind).String", func(ex *exec, fr *frame, fn *ssa.Function, a []value) value {
		return reflect.Kind(a[0].(uint)).String()
	})
}

func (r rvalue) field(st *types.Struct, i int) rvalue {
	f := st.Field(i)
	ro := r.ro || !f.Exported()
	if r.addr != nil {
		return rvalue{t: f.Type(), addr: &(*r.addr).(structure)[i], ro: ro}
	}
	return rvalue{t: f.Type(), v: r.v.(structure)[i], ro: ro}
}

func (p *Program) structFieldType() types.Type {
	return p.prog.ImportedPackage("reflect").Type("StructField").Type()
}

func (ex *exec) structField(u *types.Struct, i int) value {
	f := u.Field(i)
	pkgPath := ""
	if !f.Exported() && f.Pkg() != nil {
		pkgPath = f.Pkg().Path()
	}
	offs := ex.sizes.Offsetsof(structFields(u))
	// reflect.StructField{Name, PkgPath, Type, Tag, Offset, Index, Anonymous}
	return structure{f.Name(), pkgPath, ex.rtypeIface(f.Type()), u.Tag(i), uintptr(offs[i]), []value{i}, f.Anonymous()}
}

func structFields(u *types.Struct) []*types.Var {
	fs := make([]*types.Var, u.NumFields())
	for i := range fs {
		fs[i] = u.Field(i)
	}
	return fs
}

// isZeroTerm: v == zero value of t (reflect.Value.IsZero semantics).
func (ex *exec) isZeroTerm(t types.Type, v value) *Term {
	tt := ex.tt
	switch x := v.(type) {
	case sym:
		switch x.k {
		case types.Bool:
			return tt.Not(x.t)
		case types.String:
			return tt.Eq(x.t, tt.Str(""))
		case types.Float64:
			// IsZero for floats: bits == 0 (so -0 is not zero); approximated as == +0 and not negative
			return tt.And(tt.Eq(x.t, tt.F64(0)), tt.Not(tt.mk("fp.isNegative", SBool, x.t)))
		default:
			return tt.Eq(x.t, tt.BV(x.t.sort, 0))
		}
	case bool:
		return tt.Bool(!x)
	case string:
		return tt.Bool(x == "")
	case float64:
		return tt.Bool(floatBits(x) == 0)
	case float32:
		return tt.Bool(x == 0)
	case int, int8, int16, int32, int64, uint, uint8, uint16, uint32, uint64, uintptr:
		return tt.Bool(asInt64(x) == 0)
	case *value:
		return tt.Bool(x == nil)
	case *omap:
		return tt.Bool(x == nil)
	case []value:
		return tt.Bool(x == nil)
	case *jsonBlob:
		return tt.Bool(x == nil)
	case iface:
		return tt.Bool(ex.force(x).t == nil)
	case *gochan:
		return tt.Bool(x == nil)
	case *ssa.Function, *closure, *intrinsicFn:
		return tt.Bool(isNilFunc(x))
	case structure:
		st := t.Underlying().(*types.Struct)
		r := tt.Bool(true)
		for i := range x {
			r = tt.And(r, ex.isZeroTerm(st.Field(i).Type(), x[i]))
		}
		return r
	case array:
		at := t.Underlying().(*types.Array)
		r := tt.Bool(true)
		for i := range x {
			r = tt.And(r, ex.isZeroTerm(at.Elem(), x[i]))
		}
		return r
	case rvalue:
		return tt.Bool(!x.valid())
	}
	panic(unsupported("IsZero of %T", v))
}

// deepEq builds reflect.DeepEqual(x, y) for values of static type t.
func (ex *exec) deepEq(t types.Type, x, y value, depth int) *Term {
	tt := ex.tt
	if depth > 40 {
		panic(unsupported("DeepEqual recursion too deep (cyclic?)"))
	}
	switch u := t.Underlying().(type) {
	case *types.Basic:
		return ex.eqTerm(t, x, y)
	case *types.Pointer:
		xp, _ := x.(*value)
		yp, _ := y.(*value)
		if xp == yp {
			return tt.Bool(true)
		}
		if xp == nil || yp == nil {
			return tt.Bool(false)
		}
		return ex.deepEq(u.Elem(), load(u.Elem(), xp), load(u.Elem(), yp), depth+1)
	case *types.Slice:
		xs, xok := x.([]value)
		ys, yok := y.([]value)
		if !xok || !yok {
			xb, _ := x.(*jsonBlob)
			yb, _ := y.(*jsonBlob)
			if xb != nil {
				xs = xb.bytes()
			}
			if yb != nil {
				ys = yb.bytes()
			}
		}
		if (xs == nil) != (ys == nil) {
			return tt.Bool(false)
		}
		if len(xs) != len(ys) {
			return tt.Bool(false)
		}
		if len(xs) == 0 || &xs[0] == &ys[0] {
			return tt.Bool(true)
		}
		r := tt.Bool(true)
		for i := range xs {
			r = tt.And(r, ex.deepEq(u.Elem(), xs[i], ys[i], depth+1))
			if r.isConst() && !r.cv.(bool) {
				return r
			}
		}
		return r
	case *types.Array:
		xs, ys := x.(array), y.(array)
		r := tt.Bool(true)
		for i := range xs {
			r = tt.And(r, ex.deepEq(u.Elem(), xs[i], ys[i], depth+1))
		}
		return r
	case *types.Struct:
		if isReflectValueType(t) {
			panic(unsupported("DeepEqual on reflect.Value"))
		}
		xs, ys := x.(structure), y.(structure)
		r := tt.Bool(true)
		for i := range xs {
			r = tt.And(r, ex.deepEq(u.Field(i).Type(), xs[i], ys[i], depth+1))
			if r.isConst() && !r.cv.(bool) {
				return r
			}
		}
		return r
	case *types.Interface:
		xi, yi := ex.force(x.(iface)), ex.force(y.(iface))
		if xi.t == nil || yi.t == nil {
			return tt.Bool(xi.t == nil && yi.t == nil)
		}
		if !identical(xi.t, yi.t) {
			return tt.Bool(false)
		}
		if _, ok := xi.t.(*fakeType); ok {
			return ex.eqTerm(xi.t, xi.v, yi.v)
		}
		return ex.deepEq(xi.t, xi.v, yi.v, depth+1)
	case *types.Map:
		xm, _ := x.(*omap)
		ym, _ := y.(*omap)
		if (xm == nil) != (ym == nil) {
			return tt.Bool(false)
		}
		if xm.len() != ym.len() {
			return tt.Bool(false)
		}
		if xm == ym {
			return tt.Bool(true)
		}
		r := tt.Bool(true)
		for _, e := range xm.live() {
			yv, ok := ex.mapLookup(ym, e.key)
			if !ok {
				return tt.Bool(false)
			}
			r = tt.And(r, ex.deepEq(u.Elem(), e.val, yv, depth+1))
			if r.isConst() && !r.cv.(bool) {
				return r
			}
		}
		return r
	case *types.Signature:
		return tt.Bool(isNilFunc(x) && isNilFunc(y))
	case *types.Chan:
		return ex.eqTerm(t, x, y)
	}
	panic(unsupported("DeepEqual on %s", t))
}
