// Derived from golang.org/x/tools/go/ssa/interp (BSD-3, see LICENSE.x-tools),
// extended with symbolic leaves, ordered maps and an explicit reflect model.

package gosym

import (
	"bytes"
	"fmt"
	"go/types"
	"strings"

	"golang.org/x/tools/go/ssa"
)

// Values: all executor values are boxed in the empty interface.
//
// - bool, numbers, string: concrete Go values
// - sym: symbolic bool/number/string (SMT term + Go basic kind)
// - *omap: maps (ordered entry list, all key types)
// - *gochan: channels
// - []value: slices (Go's own aliasing and cap)
// - iface: interfaces
// - structure, array
// - *value: pointers
// - *ssa.Function, *ssa.Builtin, *closure, *intrinsicFn: functions
// - tuple
// - iter
// - rtype: reflect.Type implementation; rvalue: reflect.Value
// - *jsonBlob: a []byte that is the JSON text of a (possibly symbolic) tree
// - *opaque: handles for stubbed foreign objects
type value interface{}

type tuple []value

type array []value

type iface struct {
	t types.Type // never an "untyped" type
	v value
}

type structure []value

type iter interface {
	next() tuple
}

type closure struct {
	Fn  *ssa.Function
	Env []value
}

type bad struct{}

type rtype struct {
	t types.Type
}

// sym is a symbolic scalar.
type sym struct {
	t *Term
	k types.BasicKind // Bool, Int..Uint64, Uintptr, Float64, String
}

// opaque is a handle to a stubbed foreign object (regexp, logger, rpc client, ...).
type opaque struct {
	kind string
	data interface{}
}

func isSym(v value) bool { _, ok := v.(sym); return ok }

// nil-tolerant variant of types.Identical.
func sameType(x, y types.Type) bool {
	if x == nil {
		return y == nil
	}
	return y != nil && identical(x, y)
}

// ---------------------------------------------------------------------
// Ordered maps

type mentry struct {
	key, val value
	dead     bool
}

type omap struct {
	keyT    types.Type
	entries []*mentry
	n       int
}

func makeMap(kt types.Type) *omap { return &omap{keyT: kt} }

func (m *omap) len() int {
	if m == nil {
		return 0
	}
	return m.n
}

func (m *omap) live() []*mentry {
	if m == nil {
		return nil
	}
	out := make([]*mentry, 0, m.n)
	for _, e := range m.entries {
		if !e.dead {
			out = append(out, e)
		}
	}
	return out
}

func (m *omap) compact() {
	if len(m.entries) > 2*m.n+8 {
		m.entries = m.live()
	}
}

// find returns the entry whose key equals k (forking on symbolic equalities), or nil.
func (ex *exec) mapFind(m *omap, k value) *mentry {
	if m == nil {
		ex.checkHashable(k)
		return nil
	}
	ex.checkHashable(k)
	var cands []*mentry
	var conds []*Term
	for _, e := range m.entries {
		if e.dead {
			continue
		}
		c := ex.eqTerm(m.keyT, e.key, k)
		if c.isConst() {
			if c.cv.(bool) {
				return e
			}
			continue
		}
		cands = append(cands, e)
		conds = append(conds, c)
	}
	if len(cands) == 0 {
		return nil
	}
	// options: cand 0..n-1, none
	none := ex.tt.Bool(true)
	for _, c := range conds {
		none = ex.tt.And(none, ex.tt.Not(c))
	}
	opts := append(append([]*Term{}, conds...), none)
	i := ex.decide("mapkey", opts)
	if i == len(cands) {
		return nil
	}
	return cands[i]
}

func (ex *exec) mapLookup(m *omap, k value) (value, bool) {
	if e := ex.mapFind(m, k); e != nil {
		return e.val, true
	}
	return nil, false
}

func (ex *exec) mapInsert(m *omap, k, v value) {
	if m == nil {
		panic(runtimeError("assignment to entry in nil map"))
	}
	if e := ex.mapFind(m, k); e != nil {
		e.val = v
		return
	}
	m.entries = append(m.entries, &mentry{key: k, val: v})
	m.n++
}

func (ex *exec) mapDelete(m *omap, k value) {
	if m == nil {
		return
	}
	if e := ex.mapFind(m, k); e != nil {
		e.dead = true
		m.n--
		m.compact()
	}
}

// checkHashable panics (target runtime error) if k contains an unhashable dynamic type.
func (ex *exec) checkHashable(k value) {
	switch k := k.(type) {
	case iface:
		k = ex.force(k)
		if k.t == nil {
			return
		}
		if _, isFake := k.t.(*fakeType); isFake {
			return
		}
		if !types.Comparable(k.t) {
			panic(runtimeError("hash of unhashable type " + typeString(k.t)))
		}
		ex.checkHashable(k.v)
	case structure:
		for _, f := range k {
			ex.checkHashable(f)
		}
	case array:
		for _, f := range k {
			ex.checkHashable(f)
		}
	}
}

type runtimeError string

func (e runtimeError) Error() string { return "runtime error: " + string(e) }
func (e runtimeError) RuntimeError() {}

// ---------------------------------------------------------------------
// Equality

// eqTerm returns the Go == relation of x and y at type t as a term (const when decidable concretely).
func (ex *exec) eqTerm(t types.Type, x, y value) *Term {
	tt := ex.tt
	switch x := x.(type) {
	case bool, int, int8, int16, int32, int64, uint, uint8, uint16, uint32, uint64, uintptr, float32, float64, string, sym:
		if !isSym(x) && !isSym(y) {
			if fx, ok := x.(float64); ok {
				return tt.Bool(fx == y.(float64))
			}
			if fx, ok := x.(float32); ok {
				return tt.Bool(fx == y.(float32))
			}
			return tt.Bool(x == y)
		}
		return tt.Eq(ex.toTerm(x), ex.toTerm(y))
	case complex64, complex128:
		return tt.Bool(x == y)
	case *value:
		return tt.Bool(x == y.(*value))
	case *gochan:
		return tt.Bool(x == y.(*gochan))
	case *opaque:
		yo, _ := y.(*opaque)
		return tt.Bool(x == yo)
	case structure:
		y := y.(structure)
		tStruct := t.Underlying().(*types.Struct)
		r := tt.Bool(true)
		for i, n := 0, tStruct.NumFields(); i < n; i++ {
			if f := tStruct.Field(i); f.Name() != "_" {
				r = tt.And(r, ex.eqTerm(f.Type(), x[i], y[i]))
				if r.isConst() && !r.cv.(bool) {
					return r
				}
			}
		}
		return r
	case array:
		y := y.(array)
		tElt := t.Underlying().(*types.Array).Elem()
		r := tt.Bool(true)
		for i := range x {
			r = tt.And(r, ex.eqTerm(tElt, x[i], y[i]))
		}
		return r
	case iface:
		x = ex.force(x)
		y := ex.force(y.(iface))
		if (x.t == nil) != (y.t == nil) || (x.t != nil && !identical(x.t, y.t)) {
			return tt.Bool(false)
		}
		if x.t == nil {
			return tt.Bool(true)
		}
		if _, isFake := x.t.(*fakeType); isFake {
			return ex.eqTerm(x.t, x.v, y.v)
		}
		if !types.Comparable(x.t) {
			panic(runtimeError("comparing uncomparable type " + typeString(x.t)))
		}
		return ex.eqTerm(x.t, x.v, y.v)
	case rtype:
		return tt.Bool(types.Identical(x.t, y.(rtype).t))
	case rvalue:
		panic(runtimeError("comparing uncomparable type reflect.Value"))
	}
	panic(fmt.Sprintf("comparing uncomparable type %s (%T)", t, x))
}

// eqnilTerm: comparison where t may be a reference type compared against nil.
func (ex *exec) eqnilTerm(t types.Type, x, y value) *Term {
	switch t.Underlying().(type) {
	case *types.Map:
		xm, _ := x.(*omap)
		ym, _ := y.(*omap)
		return ex.tt.Bool((xm != nil) == (ym != nil))
	case *types.Signature:
		return ex.tt.Bool(isNilFunc(x) == isNilFunc(y))
	case *types.Slice:
		return ex.tt.Bool(isNilSlice(x) == isNilSlice(y))
	case *types.Chan:
		xc, _ := x.(*gochan)
		yc, _ := y.(*gochan)
		return ex.tt.Bool(xc == yc)
	}
	return ex.eqTerm(t, x, y)
}

func isNilFunc(x value) bool {
	switch x := x.(type) {
	case *ssa.Function:
		return x == nil
	case *closure:
		return x == nil
	case *ssa.Builtin:
		return x == nil
	case *intrinsicFn:
		return x == nil
	case nil:
		return true
	}
	return false
}

func isNilSlice(x value) bool {
	switch x := x.(type) {
	case []value:
		return x == nil
	case *jsonBlob:
		return x == nil
	case nil:
		return true
	}
	return false
}

// ---------------------------------------------------------------------
// load / store / zero

func isReflectValueType(t types.Type) bool {
	if n, ok := t.(*types.Named); ok {
		o := n.Obj()
		return o.Name() == "Value" && o.Pkg() != nil && o.Pkg().Path() == "reflect"
	}
	return false
}

// atomicStruct reports struct types that the executor models as opaque single values.
func atomicStruct(t types.Type) bool {
	return isReflectValueType(t)
}

// load returns the value of type T in *addr.
func load(T types.Type, addr *value) value {
	if atomicStruct(T) {
		return *addr
	}
	switch T := T.Underlying().(type) {
	case *types.Struct:
		v := (*addr).(structure)
		a := make(structure, len(v))
		for i := range a {
			a[i] = load(T.Field(i).Type(), &v[i])
		}
		return a
	case *types.Array:
		v := (*addr).(array)
		a := make(array, len(v))
		for i := range a {
			a[i] = load(T.Elem(), &v[i])
		}
		return a
	default:
		return *addr
	}
}

// store stores value v of type T into *addr.
func store(T types.Type, addr *value, v value) {
	if atomicStruct(T) {
		*addr = v
		return
	}
	switch T := T.Underlying().(type) {
	case *types.Struct:
		lhs := (*addr).(structure)
		rhs := v.(structure)
		for i := range lhs {
			store(T.Field(i).Type(), &lhs[i], rhs[i])
		}
	case *types.Array:
		lhs := (*addr).(array)
		rhs := v.(array)
		for i := range lhs {
			store(T.Elem(), &lhs[i], rhs[i])
		}
	default:
		*addr = v
	}
}

// copyVal returns a deep copy of the struct/array spine of v (so no slots are shared).
func copyVal(T types.Type, v value) value {
	tmp := v
	return load(T, &tmp)
}

// zero returns a new "zero" value of the specified type.
func zero(t types.Type) value {
	switch t := t.(type) {
	case *types.Basic:
		if t.Kind() == types.UntypedNil {
			panic("untyped nil has no zero value")
		}
		if t.Info()&types.IsUntyped != 0 {
			t = types.Default(t).(*types.Basic)
		}
		switch t.Kind() {
		case types.Bool:
			return false
		case types.Int:
			return int(0)
		case types.Int8:
			return int8(0)
		case types.Int16:
			return int16(0)
		case types.Int32:
			return int32(0)
		case types.Int64:
			return int64(0)
		case types.Uint:
			return uint(0)
		case types.Uint8:
			return uint8(0)
		case types.Uint16:
			return uint16(0)
		case types.Uint32:
			return uint32(0)
		case types.Uint64:
			return uint64(0)
		case types.Uintptr:
			return uintptr(0)
		case types.Float32:
			return float32(0)
		case types.Float64:
			return float64(0)
		case types.Complex64:
			return complex64(0)
		case types.Complex128:
			return complex128(0)
		case types.String:
			return ""
		case types.UnsafePointer:
			return (*value)(nil)
		default:
			panic(fmt.Sprint("zero for unexpected type:", t))
		}
	case *types.Pointer:
		return (*value)(nil)
	case *types.Array:
		a := make(array, t.Len())
		for i := range a {
			a[i] = zero(t.Elem())
		}
		return a
	case *types.Named:
		if isReflectValueType(t) {
			return rvalue{}
		}
		return zero(t.Underlying())
	case *types.Alias:
		return zero(types.Unalias(t))
	case *types.Interface:
		return iface{} // nil type, methodset and value
	case *types.Slice:
		return []value(nil)
	case *types.Struct:
		s := make(structure, t.NumFields())
		for i := range s {
			s[i] = zero(t.Field(i).Type())
		}
		return s
	case *types.Tuple:
		if t.Len() == 1 {
			return zero(t.At(0).Type())
		}
		s := make(tuple, t.Len())
		for i := range s {
			s[i] = zero(t.At(i).Type())
		}
		return s
	case *types.Chan:
		return (*gochan)(nil)
	case *types.Map:
		return (*omap)(nil)
	case *types.Signature:
		return (*ssa.Function)(nil)
	case *types.TypeParam:
		panic("zero: type parameter (generic body not instantiated)")
	}
	panic(fmt.Sprint("zero: unexpected ", t))
}

// ---------------------------------------------------------------------
// channels (single logical thread: bounded FIFO)

type gochan struct {
	buf    []value
	cap    int
	closed bool
	elemT  types.Type
	mayFire bool
	recvWaiting int
}

// ---------------------------------------------------------------------
// printing

func typeString(t types.Type) string {
	if t == nil {
		return "<nil>"
	}
	return types.TypeString(t, func(p *types.Package) string { return p.Name() })
}

func writeValue(buf *bytes.Buffer, v value, depth int) {
	if depth > 6 || buf.Len() > 4000 {
		buf.WriteString("…")
		return
	}
	switch v := v.(type) {
	case nil, bool, int, int8, int16, int32, int64, uint, uint8, uint16, uint32, uint64, uintptr, float32, float64, complex64, complex128:
		fmt.Fprintf(buf, "%v", v)
	case string:
		fmt.Fprintf(buf, "%q", v)
	case sym:
		buf.WriteString("«")
		buf.WriteString(v.t.String())
		buf.WriteString("»")
	case *omap:
		buf.WriteString("map[")
		sep := ""
		for _, e := range v.live() {
			buf.WriteString(sep)
			sep = " "
			writeValue(buf, e.key, depth+1)
			buf.WriteString(":")
			writeValue(buf, e.val, depth+1)
		}
		buf.WriteString("]")
	case *gochan:
		fmt.Fprintf(buf, "chan(%p)", v)
	case *value:
		if v == nil {
			buf.WriteString("<nil>")
		} else {
			buf.WriteString("&")
			writeValue(buf, *v, depth+1)
		}
	case iface:
		if v.t == nil {
			buf.WriteString("<nil>")
			return
		}
		fmt.Fprintf(buf, "(%s)", typeString(v.t))
		writeValue(buf, v.v, depth+1)
	case structure:
		buf.WriteString("{")
		for i, e := range v {
			if i > 0 {
				buf.WriteString(" ")
			}
			writeValue(buf, e, depth+1)
		}
		buf.WriteString("}")
	case array:
		buf.WriteString("[")
		for i, e := range v {
			if i > 0 {
				buf.WriteString(" ")
			}
			writeValue(buf, e, depth+1)
		}
		buf.WriteString("]")
	case []value:
		if v == nil {
			buf.WriteString("nil[]")
			return
		}
		buf.WriteString("[")
		for i, e := range v {
			if i > 0 {
				buf.WriteString(" ")
			}
			writeValue(buf, e, depth+1)
		}
		buf.WriteString("]")
	case *ssa.Function:
		if v == nil {
			buf.WriteString("nilfunc")
		} else {
			buf.WriteString(v.String())
		}
	case *ssa.Builtin, *closure, *intrinsicFn:
		fmt.Fprintf(buf, "func(%p)", v)
	case rtype:
		buf.WriteString(typeString(v.t))
	case rvalue:
		buf.WriteString("reflect.Value(")
		if v.t != nil {
			buf.WriteString(typeString(v.t))
			buf.WriteString(" ")
			writeValue(buf, v.get(), depth+1)
		}
		buf.WriteString(")")
	case tuple:
		buf.WriteString("(")
		for i, e := range v {
			if i > 0 {
				buf.WriteString(", ")
			}
			writeValue(buf, e, depth+1)
		}
		buf.WriteString(")")
	case *jsonBlob:
		buf.WriteString("json:")
		buf.WriteString(v.node.String())
	case *opaque:
		fmt.Fprintf(buf, "<%s>", v.kind)
	default:
		fmt.Fprintf(buf, "<%T>", v)
	}
}

func toString(v value) string {
	var b bytes.Buffer
	writeValue(&b, v, 0)
	return b.String()
}

// ------------------------------------------------------------------------
// Iterators

type stringIter struct {
	*strings.Reader
	i int
}

func (it *stringIter) next() tuple {
	okv := make(tuple, 3)
	ch, n, err := it.ReadRune()
	ok := err == nil
	okv[0] = ok
	if ok {
		okv[1] = it.i
		okv[2] = ch
	}
	it.i += n
	return okv
}

type mapIter struct {
	entries []*mentry
	i       int
}

func (it *mapIter) next() tuple {
	for it.i < len(it.entries) {
		e := it.entries[it.i]
		it.i++
		if e.dead {
			continue
		}
		return tuple{true, e.key, e.val}
	}
	return tuple{false, nil, nil}
}
