package gosym

// SMT terms: hash-consed per path, locally simplified.

import (
	"fmt"
	"math"
	"strconv"
	"strings"
)

type Sort int

const (
	SBool Sort = iota
	SBV8
	SBV16
	SBV32
	SBV64
	SF64
	SStr
)

func (s Sort) String() string {
	switch s {
	case SBool:
		return "Bool"
	case SBV8:
		return "(_ BitVec 8)"
	case SBV16:
		return "(_ BitVec 16)"
	case SBV32:
		return "(_ BitVec 32)"
	case SBV64:
		return "(_ BitVec 64)"
	case SF64:
		return "Float64"
	case SStr:
		return "String"
	}
	return "?"
}

func (s Sort) bits() int {
	switch s {
	case SBV8:
		return 8
	case SBV16:
		return 16
	case SBV32:
		return 32
	case SBV64:
		return 64
	}
	return 0
}

func bvSort(bits int) Sort {
	switch bits {
	case 8:
		return SBV8
	case 16:
		return SBV16
	case 32:
		return SBV32
	}
	return SBV64
}

// Term is an SMT term. Constants have op "const" and cv set.
type Term struct {
	id   int
	op   string
	args []*Term
	sort Sort
	// constant payload (op == "const"): bool, uint64 (bitvectors), float64, string
	cv interface{}
	// variable name (op == "var")
	name string
}

func (t *Term) isConst() bool { return t.op == "const" }

// termTable hash-conses terms for one path.
type termTable struct {
	tTrue, tFalse *Term
	nonNaN map[int]bool // float terms known not to be NaN
	byKey map[termKey]*Term
	next  int
	vars  []*Term // declared variables in creation order
	// uninterpreted functions used
}

func newTermTable() *termTable {
	tt := &termTable{byKey: make(map[termKey]*Term), nonNaN: make(map[int]bool)}
	tt.tTrue = tt.intern(&Term{op: "const", sort: SBool, cv: true})
	tt.tFalse = tt.intern(&Term{op: "const", sort: SBool, cv: false})
	return tt
}

type termKey struct {
	op      string
	sort    Sort
	n       int
	a, b, c int
	s       string
	u       uint64
}

func (tt *termTable) intern(t *Term) *Term {
	k := termKey{op: t.op, sort: t.sort, n: len(t.args)}
	switch t.op {
	case "const":
		switch c := t.cv.(type) {
		case bool:
			if c {
				k.u = 1
			}
		case uint64:
			k.u = c
		case float64:
			k.u = math.Float64bits(c)
		case string:
			k.s = c
		}
	case "var":
		k.s = t.name
	default:
		switch len(t.args) {
		case 3:
			k.c = t.args[2].id
			fallthrough
		case 2:
			k.b = t.args[1].id
			fallthrough
		case 1:
			k.a = t.args[0].id
		case 0:
		default:
			var sb strings.Builder
			for _, a := range t.args {
				sb.WriteString(strconv.Itoa(a.id))
				sb.WriteByte('|')
			}
			k.s = sb.String()
		}
	}
	if e, ok := tt.byKey[k]; ok {
		return e
	}
	t.id = tt.next
	tt.next++
	tt.byKey[k] = t
	if t.op == "var" {
		tt.vars = append(tt.vars, t)
	}
	return t
}

func (tt *termTable) Bool(b bool) *Term {
	if b {
		return tt.tTrue
	}
	return tt.tFalse
}
func (tt *termTable) BV(s Sort, v uint64) *Term {
	if n := s.bits(); n < 64 {
		v &= (1 << uint(n)) - 1
	}
	return tt.intern(&Term{op: "const", sort: s, cv: v})
}
func (tt *termTable) F64(f float64) *Term {
	return tt.intern(&Term{op: "const", sort: SF64, cv: f})
}
func (tt *termTable) Str(s string) *Term {
	return tt.intern(&Term{op: "const", sort: SStr, cv: s})
}
func (tt *termTable) Var(name string, s Sort) *Term {
	return tt.intern(&Term{op: "var", sort: s, name: name})
}

func (tt *termTable) mk(op string, s Sort, args ...*Term) *Term {
	return tt.intern(&Term{op: op, sort: s, args: args})
}

// ---- boolean connectives with simplification ----

func (tt *termTable) Not(a *Term) *Term {
	if a.isConst() {
		return tt.Bool(!a.cv.(bool))
	}
	if a.op == "not" {
		return a.args[0]
	}
	return tt.mk("not", SBool, a)
}

func (tt *termTable) And(a, b *Term) *Term {
	if a.isConst() {
		if a.cv.(bool) {
			return b
		}
		return a
	}
	if b.isConst() {
		if b.cv.(bool) {
			return a
		}
		return b
	}
	if a == b {
		return a
	}
	return tt.mk("and", SBool, a, b)
}

func (tt *termTable) Or(a, b *Term) *Term {
	if a.isConst() {
		if a.cv.(bool) {
			return a
		}
		return b
	}
	if b.isConst() {
		if b.cv.(bool) {
			return b
		}
		return a
	}
	if a == b {
		return a
	}
	return tt.mk("or", SBool, a, b)
}

func (tt *termTable) Ite(c, a, b *Term) *Term {
	if c.isConst() {
		if c.cv.(bool) {
			return a
		}
		return b
	}
	if a == b {
		return a
	}
	return tt.mk("ite", a.sort, c, a, b)
}

// Eq builds equality for Bool/BV/String sorts and Go == (fp.eq) for floats.
func (tt *termTable) Eq(a, b *Term) *Term {
	if a.sort != b.sort {
		panic(fmt.Sprintf("Eq: sort mismatch %v %v", a.sort, b.sort))
	}
	if a.sort == SF64 {
		if a.isConst() && b.isConst() {
			return tt.Bool(a.cv.(float64) == b.cv.(float64))
		}
		if a == b && tt.nonNaN[a.id] {
			return tt.Bool(true)
		}
		if a.id > b.id {
			a, b = b, a
		}
		return tt.mk("fp.eq", SBool, a, b)
	}
	if a == b {
		return tt.Bool(true)
	}
	if a.isConst() && b.isConst() {
		return tt.Bool(a.cv == b.cv)
	}
	if a.op == "strlen64" && b.isConst() {
		return tt.lenCmp("=", a.args[0], b.cv.(uint64))
	}
	if b.op == "strlen64" && a.isConst() {
		return tt.lenCmp("=", b.args[0], a.cv.(uint64))
	}
	if a.sort == SBool {
		if a.isConst() {
			if a.cv.(bool) {
				return b
			}
			return tt.Not(b)
		}
		if b.isConst() {
			if b.cv.(bool) {
				return a
			}
			return tt.Not(a)
		}
	}
	if a.id > b.id {
		a, b = b, a
	}
	return tt.mk("=", SBool, a, b)
}

// ---- bit-vector ops ----

func signExtend(v uint64, bits int) int64 {
	if bits == 64 {
		return int64(v)
	}
	sh := uint(64 - bits)
	return int64(v<<sh) >> sh
}

// BVBin builds a binary bit-vector operation with constant folding.
// op is an SMT-LIB name (bvadd, bvsub, bvmul, bvsdiv, bvudiv, bvsrem, bvurem, bvand, bvor, bvxor, bvshl, bvlshr, bvashr).
func (tt *termTable) BVBin(op string, a, b *Term) *Term {
	if a.isConst() && b.isConst() {
		x, y := a.cv.(uint64), b.cv.(uint64)
		n := a.sort.bits()
		sx, sy := signExtend(x, n), signExtend(y, n)
		var r uint64
		ok := true
		switch op {
		case "bvadd":
			r = x + y
		case "bvsub":
			r = x - y
		case "bvmul":
			r = x * y
		case "bvand":
			r = x & y
		case "bvor":
			r = x | y
		case "bvxor":
			r = x ^ y
		case "bvsdiv":
			if sy == 0 {
				ok = false
			} else if sy == -1 {
				r = uint64(-sx)
			} else {
				r = uint64(sx / sy)
			}
		case "bvsrem":
			if sy == 0 {
				ok = false
			} else if sy == -1 {
				r = 0
			} else {
				r = uint64(sx % sy)
			}
		case "bvudiv":
			if y == 0 {
				ok = false
			} else {
				r = x / y
			}
		case "bvurem":
			if y == 0 {
				ok = false
			} else {
				r = x % y
			}
		case "bvshl":
			if y >= uint64(n) {
				r = 0
			} else {
				r = x << y
			}
		case "bvlshr":
			if y >= uint64(n) {
				r = 0
			} else {
				r = x >> y
			}
		case "bvashr":
			if y >= uint64(n) {
				y = uint64(n - 1)
			}
			r = uint64(sx >> y)
		default:
			ok = false
		}
		if ok {
			return tt.BV(a.sort, r)
		}
	}
	switch op {
	case "bvadd":
		if a.isConst() && a.cv.(uint64) == 0 {
			return b
		}
		if b.isConst() && b.cv.(uint64) == 0 {
			return a
		}
	case "bvsub":
		if b.isConst() && b.cv.(uint64) == 0 {
			return a
		}
		if a == b {
			return tt.BV(a.sort, 0)
		}
	}
	return tt.mk(op, a.sort, a, b)
}

// BVCmp builds a comparison (bvslt, bvsle, bvult, bvule ...) result Bool.
func (tt *termTable) BVCmp(op string, a, b *Term) *Term {
	if a.isConst() && b.isConst() {
		x, y := a.cv.(uint64), b.cv.(uint64)
		n := a.sort.bits()
		sx, sy := signExtend(x, n), signExtend(y, n)
		switch op {
		case "bvslt":
			return tt.Bool(sx < sy)
		case "bvsle":
			return tt.Bool(sx <= sy)
		case "bvsgt":
			return tt.Bool(sx > sy)
		case "bvsge":
			return tt.Bool(sx >= sy)
		case "bvult":
			return tt.Bool(x < y)
		case "bvule":
			return tt.Bool(x <= y)
		case "bvugt":
			return tt.Bool(x > y)
		case "bvuge":
			return tt.Bool(x >= y)
		}
	}
	if a == b {
		switch op {
		case "bvslt", "bvsgt", "bvult", "bvugt":
			return tt.Bool(false)
		default:
			return tt.Bool(true)
		}
	}
	// len(s) compared with a constant stays in integer arithmetic (no int2bv)
	if a.op == "strlen64" && b.isConst() && signExtend(b.cv.(uint64), 64) >= 0 {
		switch op {
		case "bvslt", "bvult":
			return tt.lenCmp("<", a.args[0], b.cv.(uint64))
		case "bvsle", "bvule":
			return tt.lenCmp("<=", a.args[0], b.cv.(uint64))
		case "bvsgt", "bvugt":
			return tt.lenCmp(">", a.args[0], b.cv.(uint64))
		case "bvsge", "bvuge":
			return tt.lenCmp(">=", a.args[0], b.cv.(uint64))
		}
	}
	if b.op == "strlen64" && a.isConst() && signExtend(a.cv.(uint64), 64) >= 0 {
		switch op {
		case "bvslt", "bvult":
			return tt.lenCmp(">", b.args[0], a.cv.(uint64))
		case "bvsle", "bvule":
			return tt.lenCmp(">=", b.args[0], a.cv.(uint64))
		case "bvsgt", "bvugt":
			return tt.lenCmp("<", b.args[0], a.cv.(uint64))
		case "bvsge", "bvuge":
			return tt.lenCmp("<=", b.args[0], a.cv.(uint64))
		}
	}
	return tt.mk(op, SBool, a, b)
}

func (tt *termTable) BVNeg(a *Term) *Term {
	if a.isConst() {
		return tt.BV(a.sort, -a.cv.(uint64))
	}
	return tt.mk("bvneg", a.sort, a)
}
func (tt *termTable) BVNot(a *Term) *Term {
	if a.isConst() {
		return tt.BV(a.sort, ^a.cv.(uint64))
	}
	return tt.mk("bvnot", a.sort, a)
}

// BVResize converts between widths (signed selects sign- vs zero-extension).
func (tt *termTable) BVResize(a *Term, to Sort, signed bool) *Term {
	from := a.sort.bits()
	n := to.bits()
	if from == n {
		return a
	}
	if a.isConst() {
		v := a.cv.(uint64)
		if signed {
			v = uint64(signExtend(v, from))
		}
		return tt.BV(to, v)
	}
	if n < from {
		return tt.intern(&Term{op: fmt.Sprintf("(_ extract %d 0)", n-1), sort: to, args: []*Term{a}})
	}
	if signed {
		return tt.intern(&Term{op: fmt.Sprintf("(_ sign_extend %d)", n-from), sort: to, args: []*Term{a}})
	}
	return tt.intern(&Term{op: fmt.Sprintf("(_ zero_extend %d)", n-from), sort: to, args: []*Term{a}})
}

// ---- floats ----

func (tt *termTable) FBin(op string, a, b *Term) *Term {
	if a.isConst() && b.isConst() {
		x, y := a.cv.(float64), b.cv.(float64)
		switch op {
		case "fp.add":
			return tt.F64(x + y)
		case "fp.sub":
			return tt.F64(x - y)
		case "fp.mul":
			return tt.F64(x * y)
		case "fp.div":
			return tt.F64(x / y)
		}
	}
	return tt.mk(op, SF64, a, b)
}

func (tt *termTable) FCmp(op string, a, b *Term) *Term {
	if a.isConst() && b.isConst() {
		x, y := a.cv.(float64), b.cv.(float64)
		switch op {
		case "fp.lt":
			return tt.Bool(x < y)
		case "fp.leq":
			return tt.Bool(x <= y)
		case "fp.gt":
			return tt.Bool(x > y)
		case "fp.geq":
			return tt.Bool(x >= y)
		}
	}
	return tt.mk(op, SBool, a, b)
}

func (tt *termTable) FNeg(a *Term) *Term {
	if a.isConst() {
		return tt.F64(-a.cv.(float64))
	}
	return tt.mk("fp.neg", SF64, a)
}

func (tt *termTable) FIsNaN(a *Term) *Term {
	if a.isConst() {
		return tt.Bool(math.IsNaN(a.cv.(float64)))
	}
	return tt.mk("fp.isNaN", SBool, a)
}
func (tt *termTable) FIsInf(a *Term) *Term {
	if a.isConst() {
		return tt.Bool(math.IsInf(a.cv.(float64), 0))
	}
	return tt.mk("fp.isInfinite", SBool, a)
}

// IntToF: signed 64-bit -> float64 (RNE)
func (tt *termTable) IntToF(a *Term, signed bool) *Term {
	if a.isConst() {
		if signed {
			return tt.F64(float64(signExtend(a.cv.(uint64), a.sort.bits())))
		}
		return tt.F64(float64(a.cv.(uint64)))
	}
	var r *Term
	if signed {
		r = tt.mk("(_ to_fp 11 53) RNE", SF64, a)
	} else {
		r = tt.mk("(_ to_fp_unsigned 11 53) RNE", SF64, a)
	}
	tt.nonNaN[r.id] = true
	return r
}

// FToInt: float64 -> signed bit-vector, truncating (RTZ). Out-of-range is unspecified (as in Go).
func (tt *termTable) FToInt(a *Term, to Sort, signed bool) *Term {
	if a.isConst() {
		f := a.cv.(float64)
		if signed {
			return tt.BV(to, uint64(int64(f)))
		}
		return tt.BV(to, uint64(f))
	}
	if signed {
		return tt.intern(&Term{op: fmt.Sprintf("(_ fp.to_sbv %d) RTZ", to.bits()), sort: to, args: []*Term{a}})
	}
	return tt.intern(&Term{op: fmt.Sprintf("(_ fp.to_ubv %d) RTZ", to.bits()), sort: to, args: []*Term{a}})
}

// ---- strings ----

func (tt *termTable) Concat(a, b *Term) *Term {
	if a.isConst() && b.isConst() {
		return tt.Str(a.cv.(string) + b.cv.(string))
	}
	if a.isConst() && a.cv.(string) == "" {
		return b
	}
	if b.isConst() && b.cv.(string) == "" {
		return a
	}
	return tt.mk("str.++", SStr, a, b)
}

// StrLen returns len as BV64 (via int2bv).
func (tt *termTable) StrLen(a *Term) *Term {
	if a.isConst() {
		return tt.BV(SBV64, uint64(len(a.cv.(string))))
	}
	return tt.mk("strlen64", SBV64, a)
}

func (tt *termTable) StrLt(a, b *Term) *Term {
	if a.isConst() && b.isConst() {
		return tt.Bool(a.cv.(string) < b.cv.(string))
	}
	return tt.mk("str.<", SBool, a, b)
}

// lenCmp is (op (str.len s) n) in integer arithmetic.
func (tt *termTable) lenCmp(op string, s *Term, n uint64) *Term {
	if int64(n) < 0 {
		switch op {
		case "=", "<", "<=":
			return tt.Bool(false)
		default:
			return tt.Bool(true)
		}
	}
	return tt.intern(&Term{op: "lencmp:" + op + ":" + strconv.FormatUint(n, 10), sort: SBool, args: []*Term{s}})
}

// UF application (Bool result) e.g. isuuid
func (tt *termTable) UFBool(name string, a *Term) *Term {
	return tt.mk("uf:"+name, SBool, a)
}

// ---- printing ----

func smtString(s string) string {
	var sb strings.Builder
	sb.WriteByte('"')
	for _, r := range s {
		switch {
		case r == '"':
			sb.WriteString(`""`)
		case r < 0x20 || r > 0x7e || r == '\\':
			fmt.Fprintf(&sb, `\u{%x}`, r)
		default:
			sb.WriteRune(r)
		}
	}
	sb.WriteByte('"')
	return sb.String()
}

func constSMT(t *Term) string {
	switch t.sort {
	case SBool:
		if t.cv.(bool) {
			return "true"
		}
		return "false"
	case SBV8:
		return fmt.Sprintf("#x%02x", t.cv.(uint64))
	case SBV16:
		return fmt.Sprintf("#x%04x", t.cv.(uint64))
	case SBV32:
		return fmt.Sprintf("#x%08x", t.cv.(uint64))
	case SBV64:
		return fmt.Sprintf("#x%016x", t.cv.(uint64))
	case SF64:
		b := math.Float64bits(t.cv.(float64))
		return fmt.Sprintf("((_ to_fp 11 53) #x%016x)", b)
	case SStr:
		return smtString(t.cv.(string))
	}
	panic("constSMT")
}

// shallowSMT prints t with children referenced by name (tN) unless they are leaves.
func refSMT(t *Term) string {
	switch t.op {
	case "const":
		return constSMT(t)
	case "var":
		return t.name
	}
	return "t" + strconv.Itoa(t.id)
}

func bodySMT(t *Term) string {
	switch t.op {
	case "const", "var":
		return refSMT(t)
	case "strlen64":
		return "((_ int2bv 64) (str.len " + refSMT(t.args[0]) + "))"
	}
	if strings.HasPrefix(t.op, "lencmp:") {
		parts := strings.SplitN(t.op, ":", 3)
		return "(" + parts[1] + " (str.len " + refSMT(t.args[0]) + ") " + parts[2] + ")"
	}
	op := t.op
	if strings.HasPrefix(op, "uf:") {
		op = op[3:]
	}
	var sb strings.Builder
	sb.WriteByte('(')
	sb.WriteString(op)
	for _, a := range t.args {
		sb.WriteByte(' ')
		sb.WriteString(refSMT(a))
	}
	sb.WriteByte(')')
	return sb.String()
}

// hasFPArith reports whether the term DAG contains FP arithmetic/conversions (for solver routing).
func hasFPArith(t *Term, seen map[int]bool) bool {
	if seen[t.id] {
		return false
	}
	seen[t.id] = true
	switch {
	case strings.HasPrefix(t.op, "fp.add"), strings.HasPrefix(t.op, "fp.sub"), strings.HasPrefix(t.op, "fp.mul"),
		strings.HasPrefix(t.op, "fp.div"), strings.Contains(t.op, "to_fp"), strings.Contains(t.op, "fp.to_"):
		return true
	}
	for _, a := range t.args {
		if hasFPArith(a, seen) {
			return true
		}
	}
	return false
}

// pretty prints a term fully inlined (for samples / debugging); bounded size.
func (t *Term) String() string {
	var sb strings.Builder
	t.write(&sb, 0)
	return sb.String()
}

func (t *Term) write(sb *strings.Builder, depth int) {
	if sb.Len() > 2000 || depth > 30 {
		sb.WriteString("…")
		return
	}
	switch t.op {
	case "const":
		switch c := t.cv.(type) {
		case uint64:
			fmt.Fprintf(sb, "%d", signExtend(c, t.sort.bits()))
		case string:
			fmt.Fprintf(sb, "%q", c)
		default:
			fmt.Fprintf(sb, "%v", c)
		}
		return
	case "var":
		sb.WriteString(t.name)
		return
	}
	sb.WriteByte('(')
	sb.WriteString(t.op)
	for _, a := range t.args {
		sb.WriteByte(' ')
		a.write(sb, depth+1)
	}
	sb.WriteByte(')')
}
