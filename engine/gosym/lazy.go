package gosym

import "go/types"

// LazyJSON: an arbitrary JSON tree whose shape is decided when the code first looks.

type lazyState struct {
	depth, width int
	keyMenu      []string
	resolved     *jnode
	forced       *iface
	nonNull      bool
	excluded     map[jkind]bool // kinds ruled out by an earlier typed decode that mismatched
}

var allJSONKinds = []jkind{jBool, jFloat, jStr, jArr, jObj}

// resolveLazy decides the kind of a lazy node among all JSON kinds (inspection through interface{}).
func (ex *exec) resolveLazy(n *jnode) *jnode {
	r, _ := ex.resolveLazyFor(n, allJSONKinds, nil, false)
	return r
}

// resolveLazyFor decides the kind of a lazy node for a typed decode target: null (unless excluded), each kind
// the target accepts, and one representative of "any other kind" (all of which encoding/json treats alike:
// UnmarshalTypeError, target untouched). structKeys, if given, is the key menu of an object.
func (ex *exec) resolveLazyFor(n *jnode, want []jkind, structKeys []string, withMismatch bool) (*jnode, bool) {
	ls := n.lazy
	if ls.resolved != nil {
		return ls.resolved, false
	}
	tt := ex.tt
	type opt struct {
		kind     jkind
		mismatch bool
	}
	var opts []opt
	if !ls.nonNull {
		opts = append(opts, opt{kind: jNull})
	}
	has := map[jkind]bool{}
	for _, k := range want {
		if (k == jArr || k == jObj) && ls.depth <= 0 {
			continue
		}
		if ls.excluded[k] {
			continue
		}
		opts = append(opts, opt{kind: k})
		has[k] = true
	}
	if withMismatch {
		// some kind must remain that is neither accepted by this target nor already ruled out
		for _, k := range allJSONKinds {
			if (k == jArr || k == jObj) && ls.depth <= 0 {
				continue
			}
			if !has[k] && !ls.excluded[k] {
				opts = append(opts, opt{mismatch: true})
				break
			}
		}
	}
	if len(opts) == 0 {
		opts = append(opts, opt{kind: jNull})
	}
	ts := make([]*Term, len(opts))
	for i := range ts {
		ts[i] = tt.Bool(true)
	}
	k := 0
	if len(opts) > 1 {
		k = ex.decide("jsonkind", ts)
	}
	o := opts[k]
	var r *jnode
	if o.mismatch {
		// stays unresolved: only the kinds this target accepts (and null) are ruled out
		if ls.excluded == nil {
			ls.excluded = map[jkind]bool{}
		}
		for _, k := range want {
			ls.excluded[k] = true
		}
		ls.nonNull = true
		return nil, true
	}
	child := func() *jnode {
		return &jnode{kind: jLazy, lazy: &lazyState{depth: ls.depth - 1, width: ls.width, keyMenu: ls.keyMenu}}
	}
	switch o.kind {
	case jNull:
		r = &jnode{kind: jNull}
	case jBool:
		r = &jnode{kind: jBool, v: sym{ex.freshVar("jbool", SBool), types.Bool}}
	case jFloat:
		v := sym{ex.freshVar("jnum", SF64), types.Float64}
		ex.assertPC(tt.Not(tt.Or(tt.FIsNaN(v.t), tt.FIsInf(v.t))))
		tt.nonNaN[v.t.id] = true
		r = &jnode{kind: jFloat, v: v}
	case jStr:
		r = &jnode{kind: jStr, v: sym{ex.freshVar("jstr", SStr), types.String}}
	case jArr:
		lo := make([]*Term, ls.width+1)
		for i := range lo {
			lo[i] = tt.Bool(true)
		}
		ln := ex.decide("jsonlen", lo)
		r = &jnode{kind: jArr, arr: make([]*jnode, ln)}
		for i := range r.arr {
			r.arr[i] = child()
		}
	case jObj:
		r = &jnode{kind: jObj}
		menu := structKeys
		if menu == nil {
			menu = ls.keyMenu
		}
		menu = append(append([]string(nil), menu...), "zz_other")
		for _, key := range menu {
			if len(r.keys) >= ls.width {
				break
			}
			if ex.decide("jsonkey", []*Term{tt.Bool(true), tt.Bool(true)}) == 1 {
				r.keys = append(r.keys, key)
				r.vals = append(r.vals, child())
			}
		}
	}
	ls.resolved = r
	return r, false
}

// concretizeJSON renders a (lazy) tree as JSON text under a model; unresolved parts become null.
func (ex *exec) concretizeJSON(n *jnode, model map[string]interface{}) string {
	switch n.kind {
	case jLazy:
		if n.lazy.resolved == nil {
			if !n.lazy.nonNull {
				return "null"
			}
			switch ex2 := n.lazy.excluded; {
			case !ex2[jBool]:
				return "true"
			case !ex2[jFloat]:
				return "0"
			case !ex2[jStr]:
				return "\"x\""
			case !ex2[jArr] && n.lazy.depth > 0:
				return "[]"
			default:
				return "{}"
			}
		}
		return ex.concretizeJSON(n.lazy.resolved, model)
	case jArr:
		s := "["
		for i, c := range n.arr {
			if i > 0 {
				s += ","
			}
			s += ex.concretizeJSON(c, model)
		}
		return s + "]"
	case jObj:
		s := "{"
		for i, k := range n.keys {
			if i > 0 {
				s += ","
			}
			s += (&jnode{kind: jStr, v: ex.modelValue(k, model)}).String() + ":" + ex.concretizeJSON(n.vals[i], model)
		}
		return s + "}"
	case jNull, jLit:
		return n.String()
	default:
		c := *n
		c.v = ex.modelValue(n.v, model)
		return c.String()
	}
}

func (ex *exec) modelValue(v value, model map[string]interface{}) value {
	s, ok := v.(sym)
	if !ok {
		return v
	}
	if s.t.op == "var" {
		if mv, ok := model[s.t.name]; ok {
			switch x := mv.(type) {
			case uint64:
				return fromTerm(ex.tt.BV(s.t.sort, x), s.k)
			case bool, float64:
				return x
			case string:
				return ex.replayString(s.t, x, model)
			}
		}
	}
	return zeroOfKind(s.k)
}
