package gosym

// LazyJSON: an arbitrary JSON tree whose shape is decided when the code first looks.

type lazyState struct {
	depth, width int
	keyMenu      []string
	resolved     *jnode
	id           int
}

func (ex *exec) resolveLazy(n *jnode) *jnode {
	ls := n.lazy
	if ls.resolved != nil {
		return ls.resolved
	}
	tt := ex.tt
	// kinds: null, bool, number, string, array, object (arrays/objects only while depth remains)
	nk := 4
	if ls.depth > 0 {
		nk = 6
	}
	opts := make([]*Term, nk)
	for i := range opts {
		opts[i] = tt.Bool(true)
	}
	k := ex.decide("jsonkind", opts)
	ex.lazyLog = append(ex.lazyLog, k)
	var r *jnode
	switch k {
	case 0:
		r = &jnode{kind: jNull}
	case 1:
		r = &jnode{kind: jBool, v: ex.nondet("bool", SBool, 1 /*types.Bool*/)}
	case 2:
		v := ex.nondet("float64", SF64, 14 /*types.Float64*/).(sym)
		ex.assertPC(tt.Not(tt.Or(tt.FIsNaN(v.t), tt.FIsInf(v.t))))
		r = &jnode{kind: jFloat, v: v}
	case 3:
		r = &jnode{kind: jStr, v: ex.nondet("string", SStr, 17 /*types.String*/)}
	case 4:
		lo := make([]*Term, ls.width+1)
		for i := range lo {
			lo[i] = tt.Bool(true)
		}
		ln := ex.decide("jsonlen", lo)
		ex.lazyLog = append(ex.lazyLog, ln)
		r = &jnode{kind: jArr, arr: make([]*jnode, ln)}
		for i := range r.arr {
			r.arr[i] = &jnode{kind: jLazy, lazy: &lazyState{depth: ls.depth - 1, width: ls.width, keyMenu: ls.keyMenu}}
		}
	case 5:
		// object: each menu key present or absent (bounded by width), plus optionally one unknown key
		r = &jnode{kind: jObj}
		menu := append(append([]string(nil), ls.keyMenu...), "zz_other")
		for _, key := range menu {
			if len(r.keys) >= ls.width {
				break
			}
			present := ex.decide("jsonkey", []*Term{tt.Bool(true), tt.Bool(true)})
			ex.lazyLog = append(ex.lazyLog, present)
			if present == 1 {
				r.keys = append(r.keys, key)
				r.vals = append(r.vals, &jnode{kind: jLazy, lazy: &lazyState{depth: ls.depth - 1, width: ls.width, keyMenu: ls.keyMenu}})
			}
		}
	}
	ls.resolved = r
	return r
}

// concretize renders a (lazy) tree as JSON text under a model; unresolved parts become null.
func (ex *exec) concretizeJSON(n *jnode, model map[string]interface{}) string {
	switch n.kind {
	case jLazy:
		if n.lazy.resolved == nil {
			return "null"
		}
		return ex.concretizeJSON(n.lazy.resolved, model)
	case jArr:
		s := "["
		for i, c := range n.arr {
			if i > 0 {
				s += ","
			}
			s += ex.concretizeJSON(c, model)
		}
		return s + "]"
	case jObj:
		s := "{"
		for i, k := range n.keys {
			if i > 0 {
				s += ","
			}
			s += (&jnode{kind: jStr, v: ex.modelValue(k, model)}).String() + ":" + ex.concretizeJSON(n.vals[i], model)
		}
		return s + "}"
	case jNull, jLit:
		return n.String()
	default:
		c := *n
		c.v = ex.modelValue(n.v, model)
		return c.String()
	}
}

func (ex *exec) modelValue(v value, model map[string]interface{}) value {
	s, ok := v.(sym)
	if !ok {
		return v
	}
	if s.t.op == "var" {
		if mv, ok := model[s.t.name]; ok {
			switch x := mv.(type) {
			case uint64:
				return fromTerm(ex.tt.BV(s.t.sort, x), s.k)
			case bool, float64, string:
				return x
			}
		}
	}
	return zeroOfKind(s.k)
}
