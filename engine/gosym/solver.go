package gosym

// SMT-LIB2 pipe to a long-lived solver process (z3 -in). One per worker.

import (
	"os"
	"sync/atomic"
	"bufio"
	"fmt"
	"io"
	"math"
	osexec "os/exec"
	"strconv"
	"strings"
	"time"
)

type Result int

const (
	Unsat Result = iota
	Sat
	Unknown
)

func (r Result) String() string { return [...]string{"unsat", "sat", "unknown"}[r] }

type SolverStats struct {
	Queries  int
	Sat      int
	Unsat    int
	Unknown  int
	Errors   int
	Time     time.Duration
	Restarts int
}

type Solver struct {
	name    string
	argv    []string
	cmd     *osexec.Cmd
	in      io.WriteCloser
	out     *bufio.Reader
	defined map[int]bool
	journal []int
	marks   []int
	Stats   SolverStats
	timeout int // ms
	logw    io.Writer
	dead    bool
}

func NewSolver(name string, timeoutMs int) (*Solver, error) {
	s := &Solver{name: name, timeout: timeoutMs}
	if lf := os.Getenv("GOSYM_SMTLOG"); lf != "" && name == "z3" {
		if f, err := os.Create(fmt.Sprintf("%s.%d", lf, logSeq.Add(1))); err == nil {
			s.logw = f
		}
	}
	switch name {
	case "z3", "z3-new":
		s.argv = []string{name, "-in", "-smt2"}
	case "cvc5":
		s.argv = []string{"cvc5", "--incremental", "--lang=smt2", "--strings-exp", fmt.Sprintf("--tlimit-per=%d", timeoutMs)}
	default:
		return nil, fmt.Errorf("unknown solver %q", name)
	}
	if err := s.start(); err != nil {
		return nil, err
	}
	return s, nil
}

func (s *Solver) start() error {
	s.cmd = osexec.Command(s.argv[0], s.argv[1:]...)
	in, err := s.cmd.StdinPipe()
	if err != nil {
		return err
	}
	out, err := s.cmd.StdoutPipe()
	if err != nil {
		return err
	}
	s.cmd.Stderr = nil
	if err := s.cmd.Start(); err != nil {
		return err
	}
	s.in = in
	s.out = bufio.NewReaderSize(out, 1<<16)
	s.dead = false
	s.preamble()
	return nil
}

func (s *Solver) Close() {
	if s.cmd != nil && s.cmd.Process != nil {
		s.in.Close()
		s.cmd.Process.Kill()
		s.cmd.Wait()
	}
}

func (s *Solver) send(str string) {
	if s.logw != nil {
		io.WriteString(s.logw, str)
	}
	if _, err := io.WriteString(s.in, str); err != nil {
		s.dead = true
	}
}

func (s *Solver) preamble() {
	if s.name == "cvc5" {
		s.send("(set-logic ALL)\n(set-option :produce-models true)\n")
	} else {
		s.send(fmt.Sprintf("(set-option :timeout %d)\n(set-option :model.completion true)\n", s.timeout))
	}
	s.send("(declare-fun isuuid (String) Bool)\n")
	s.defined = make(map[int]bool)
	s.journal = s.journal[:0]
	s.marks = s.marks[:0]
}

// Reset clears all assertions and declarations (start of a new path).
func (s *Solver) Reset() {
	if s.dead {
		s.Close()
		s.Stats.Restarts++
		if err := s.start(); err != nil {
			panic(err)
		}
		return
	}
	s.send("(reset)\n")
	s.preamble()
}

func (s *Solver) push() {
	s.send("(push 1)\n")
	s.marks = append(s.marks, len(s.journal))
}

func (s *Solver) pop() {
	s.send("(pop 1)\n")
	m := s.marks[len(s.marks)-1]
	s.marks = s.marks[:len(s.marks)-1]
	for _, id := range s.journal[m:] {
		delete(s.defined, id)
	}
	s.journal = s.journal[:m]
}

// define emits declarations/definitions for t and its sub-terms not yet known in the current scope.
func (s *Solver) define(t *Term, sb *strings.Builder) {
	if s.defined[t.id] {
		return
	}
	switch t.op {
	case "const":
		return
	case "var":
		fmt.Fprintf(sb, "(declare-const %s %s)\n", t.name, t.sort)
	default:
		for _, a := range t.args {
			s.define(a, sb)
		}
		fmt.Fprintf(sb, "(define-fun t%d () %s %s)\n", t.id, t.sort, bodySMT(t))
	}
	s.defined[t.id] = true
	s.journal = append(s.journal, t.id)
}

// Assert adds t to the current scope.
func (s *Solver) Assert(t *Term) {
	var sb strings.Builder
	s.define(t, &sb)
	fmt.Fprintf(&sb, "(assert %s)\n", refSMT(t))
	s.send(sb.String())
}

// Check decides satisfiability of (asserted ∧ extra...). With wantModel, values of vars are returned on sat.
func (s *Solver) Check(extra []*Term, vars []*Term, wantModel bool) (Result, map[string]interface{}) {
	start := time.Now()
	s.Stats.Queries++
	s.push()
	var sb strings.Builder
	for _, t := range extra {
		s.define(t, &sb)
		fmt.Fprintf(&sb, "(assert %s)\n", refSMT(t))
	}
	sb.WriteString("(check-sat)\n")
	s.send(sb.String())
	res, hadErr := s.readResult()
	var model map[string]interface{}
	if res == Sat && wantModel && !hadErr {
		model = s.getValues(vars)
	}
	if !s.dead {
		s.pop()
	} else {
		s.marks = s.marks[:0]
	}
	if hadErr {
		s.Stats.Errors++
		res = Unknown
	}
	switch res {
	case Sat:
		s.Stats.Sat++
	case Unsat:
		s.Stats.Unsat++
	default:
		s.Stats.Unknown++
	}
	s.Stats.Time += time.Since(start)
	return res, model
}

func (s *Solver) readResult() (Result, bool) {
	hadErr := false
	for {
		line, err := s.out.ReadString('\n')
		if err != nil {
			s.dead = true
			return Unknown, true
		}
		line = strings.TrimSpace(line)
		switch {
		case line == "sat":
			return Sat, hadErr
		case line == "unsat":
			return Unsat, hadErr
		case line == "unknown" || line == "timeout":
			return Unknown, hadErr
		case strings.HasPrefix(line, "(error"):
			hadErr = true
			if s.logw != nil {
				fmt.Fprintf(s.logw, "; SOLVER ERROR: %s\n", line)
			}
			LastSolverError = line
		case line == "":
		default:
			// unexpected output (e.g. multi-line error); keep reading
		}
	}
}

var logSeq atomic.Int32

// LastSolverError keeps the most recent error line for diagnostics.
var LastSolverError string

func (s *Solver) getValues(vars []*Term) map[string]interface{} {
	if len(vars) == 0 {
		return map[string]interface{}{}
	}
	var sb strings.Builder
	var defs strings.Builder
	for _, v := range vars {
		s.define(v, &defs)
	}
	sb.WriteString(defs.String())
	sb.WriteString("(get-value (")
	for _, v := range vars {
		sb.WriteString(refSMT(v))
		sb.WriteByte(' ')
	}
	sb.WriteString("))\n")
	s.send(sb.String())
	text, err := s.readSexp()
	if err != nil {
		s.dead = true
		return nil
	}
	ex, _, perr := parseSexp(text, 0)
	if perr != nil {
		return nil
	}
	model := make(map[string]interface{})
	if len(ex.list) != len(vars) {
		return model
	}
	for i, pair := range ex.list {
		if len(pair.list) != 2 {
			continue
		}
		model[refSMT(vars[i])] = decodeValue(pair.list[1], vars[i].sort)
	}
	return model
}

// readSexp reads one balanced s-expression from the solver output.
func (s *Solver) readSexp() (string, error) {
	var sb strings.Builder
	depth := 0
	inStr := false
	started := false
	for {
		b, err := s.out.ReadByte()
		if err != nil {
			return "", err
		}
		sb.WriteByte(b)
		if inStr {
			if b == '"' {
				inStr = false
			}
			continue
		}
		switch b {
		case '"':
			inStr = true
		case '(':
			depth++
			started = true
		case ')':
			depth--
			if started && depth == 0 {
				return sb.String(), nil
			}
		}
	}
}

type sexp struct {
	atom string
	str  bool
	list []*sexp
	isL  bool
}

func parseSexp(s string, i int) (*sexp, int, error) {
	for i < len(s) && (s[i] == ' ' || s[i] == '\n' || s[i] == '\t' || s[i] == '\r') {
		i++
	}
	if i >= len(s) {
		return nil, i, fmt.Errorf("eof")
	}
	if s[i] == '(' {
		n := &sexp{isL: true}
		i++
		for {
			for i < len(s) && (s[i] == ' ' || s[i] == '\n' || s[i] == '\t' || s[i] == '\r') {
				i++
			}
			if i >= len(s) {
				return nil, i, fmt.Errorf("eof in list")
			}
			if s[i] == ')' {
				return n, i + 1, nil
			}
			c, j, err := parseSexp(s, i)
			if err != nil {
				return nil, j, err
			}
			n.list = append(n.list, c)
			i = j
		}
	}
	if s[i] == '"' {
		var sb strings.Builder
		i++
		for i < len(s) {
			if s[i] == '"' {
				if i+1 < len(s) && s[i+1] == '"' {
					sb.WriteByte('"')
					i += 2
					continue
				}
				i++
				break
			}
			sb.WriteByte(s[i])
			i++
		}
		return &sexp{atom: sb.String(), str: true}, i, nil
	}
	j := i
	for j < len(s) && !strings.ContainsRune(" \n\t\r()", rune(s[j])) {
		j++
	}
	return &sexp{atom: s[i:j]}, j, nil
}

func unescapeSMT(s string) string {
	var sb strings.Builder
	for i := 0; i < len(s); i++ {
		if s[i] == '\\' && i+1 < len(s) {
			if s[i+1] == 'u' && i+2 < len(s) && s[i+2] == '{' {
				j := strings.IndexByte(s[i:], '}')
				if j > 0 {
					if v, err := strconv.ParseUint(s[i+3:i+j], 16, 32); err == nil {
						sb.WriteRune(rune(v))
						i += j
						continue
					}
				}
			} else if s[i+1] == 'u' && i+5 < len(s) {
				if v, err := strconv.ParseUint(s[i+2:i+6], 16, 32); err == nil {
					sb.WriteRune(rune(v))
					i += 5
					continue
				}
			} else if s[i+1] == 'x' && i+3 < len(s) {
				if v, err := strconv.ParseUint(s[i+2:i+4], 16, 32); err == nil {
					sb.WriteRune(rune(v))
					i += 3
					continue
				}
			}
		}
		sb.WriteByte(s[i])
	}
	return sb.String()
}

func parseBits(a string) (uint64, int, bool) {
	if strings.HasPrefix(a, "#x") {
		v, err := strconv.ParseUint(a[2:], 16, 64)
		return v, 4 * (len(a) - 2), err == nil
	}
	if strings.HasPrefix(a, "#b") {
		v, err := strconv.ParseUint(a[2:], 2, 64)
		return v, len(a) - 2, err == nil
	}
	return 0, 0, false
}

func decodeValue(e *sexp, sort Sort) interface{} {
	switch sort {
	case SBool:
		return e.atom == "true"
	case SStr:
		return unescapeSMT(e.atom)
	case SBV8, SBV16, SBV32, SBV64:
		if v, _, ok := parseBits(e.atom); ok {
			return v
		}
		if e.isL && len(e.list) == 3 && e.list[0].atom == "_" && strings.HasPrefix(e.list[1].atom, "bv") {
			v, _ := strconv.ParseUint(e.list[1].atom[2:], 10, 64)
			return v
		}
		return uint64(0)
	case SF64:
		if e.isL && len(e.list) == 4 && e.list[0].atom == "fp" {
			sg, _, _ := parseBits(e.list[1].atom)
			ex, _, _ := parseBits(e.list[2].atom)
			mt, _, _ := parseBits(e.list[3].atom)
			return math.Float64frombits(sg<<63 | ex<<52 | mt)
		}
		if e.isL && len(e.list) >= 2 && e.list[0].atom == "_" {
			switch e.list[1].atom {
			case "+zero":
				return 0.0
			case "-zero":
				return math.Copysign(0, -1)
			case "+oo":
				return math.Inf(1)
			case "-oo":
				return math.Inf(-1)
			case "NaN":
				return math.NaN()
			}
		}
		return 0.0
	}
	return nil
}
