package gosym

// SMT-LIB2 pipe to a long-lived solver process (z3 -in). One per worker.

import (
	"os"
	"sync/atomic"
	"bufio"
	"fmt"
	"io"
	"math"
	osexec "os/exec"
	"strconv"
	"strings"
	"time"
)

type Result int

const (
	Unsat Result = iota
	Sat
	Unknown
)

func (r Result) String() string { return [...]string{"unsat", "sat", "unknown"}[r] }

type SolverStats struct {
	Queries  int
	Sat      int
	Unsat    int
	Unknown  int
	Errors   int
	Time     time.Duration
	Restarts int
	Killed   int
}

type Solver struct {
	name    string
	argv    []string
	cmd     *osexec.Cmd
	in      io.WriteCloser
	out     *bufio.Reader
	defined map[int]bool
	journal []int
	marks   []int
	Stats   SolverStats
	timeout int // ms
	// LastKilled: the last query was ended by the watchdog
	LastKilled bool
	logw    io.Writer
	dead    bool
	needFresh bool
	euf       bool     // strings as an uninterpreted sort (equality, length, isuuid only)
	scList    []*Term  // string constants declared in the current scope (euf mode)
	scMarks   []int
	genStrs   []*Term // generated-UUID variables defined on this path (fresh: distinct from every other string)
	allStrs   []*Term // every string variable / constant defined on this path
	inPath    bool
	cycles    int
}

func NewSolver(name string, timeoutMs int) (*Solver, error) {
	s := &Solver{name: name, timeout: timeoutMs}
	if lf := os.Getenv("GOSYM_SMTLOG"); lf != "" && name == "z3" {
		if f, err := os.Create(fmt.Sprintf("%s.%d", lf, logSeq.Add(1))); err == nil {
			s.logw = f
		}
	}
	switch name {
	case "z3", "z3-new":
		s.argv = []string{name, "-in", "-smt2"}
	case "cvc5":
		s.argv = []string{"cvc5", "--incremental", "--lang=smt2", "--strings-exp", fmt.Sprintf("--tlimit-per=%d", timeoutMs)}
	default:
		return nil, fmt.Errorf("unknown solver %q", name)
	}
	if err := s.start(); err != nil {
		return nil, err
	}
	return s, nil
}

func (s *Solver) start() error {
	s.cmd = osexec.Command(s.argv[0], s.argv[1:]...)
	in, err := s.cmd.StdinPipe()
	if err != nil {
		return err
	}
	out, err := s.cmd.StdoutPipe()
	if err != nil {
		return err
	}
	s.cmd.Stderr = nil
	if err := s.cmd.Start(); err != nil {
		return err
	}
	s.in = in
	s.out = bufio.NewReaderSize(out, 1<<16)
	s.dead = false
	s.preamble()
	return nil
}

func (s *Solver) Close() {
	if s.cmd != nil && s.cmd.Process != nil {
		s.in.Close()
		s.cmd.Process.Kill()
		s.cmd.Wait()
	}
}

func (s *Solver) send(str string) {
	if s.logw != nil {
		io.WriteString(s.logw, str)
	}
	if _, err := io.WriteString(s.in, str); err != nil {
		s.dead = true
	}
}

func (s *Solver) preamble() {
	if s.name == "cvc5" {
		s.send("(set-logic ALL)\n(set-option :produce-models true)\n")
	} else {
		s.send(fmt.Sprintf("(set-option :timeout %d)\n(set-option :model.completion true)\n", s.timeout))
	}
	s.send("(declare-fun isuuid (String) Bool)\n")
	if s.name != "cvc5" {
		s.send("(declare-sort Str 0)\n(declare-fun isuuid_a (Str) Bool)\n(declare-fun slen (Str) Int)\n(declare-const sc_empty Str)\n(assert (= (slen sc_empty) 0))\n(assert (not (isuuid_a sc_empty)))\n")
	}
	s.scList = s.scList[:0]
	s.scMarks = s.scMarks[:0]
	s.genStrs = s.genStrs[:0]
	s.allStrs = s.allStrs[:0]
	s.defined = make(map[int]bool)
	s.journal = s.journal[:0]
	s.marks = s.marks[:0]
}

// Reset clears all assertions and declarations (start of a new path). It is lazy: nothing is sent until the
// path first talks to the solver; paths are bracketed by push/pop, with a full (reset) every few hundred paths.
func (s *Solver) Reset() {
	if s.dead {
		s.Close()
		s.Stats.Restarts++
		if err := s.start(); err != nil {
			panic(err)
		}
		s.inPath = false
		s.needFresh = false
		return
	}
	s.needFresh = true
}

func (s *Solver) ensureFresh() {
	if !s.needFresh {
		return
	}
	s.needFresh = false
	if s.inPath {
		// also closes query scopes left open by an abort in the middle of a query
		s.send("(pop 1)\n")
		s.inPath = false
	}
	s.cycles++
	if s.cycles%400 == 0 {
		s.send("(reset)\n")
		s.preamble()
	}
	s.send("(push 1)\n")
	s.inPath = true
	s.defined = make(map[int]bool)
	s.journal = s.journal[:0]
	s.marks = s.marks[:0]
	s.scList = s.scList[:0]
	s.scMarks = s.scMarks[:0]
	s.genStrs = s.genStrs[:0]
	s.allStrs = s.allStrs[:0]
}

// fresh emits the freshness axioms of generated UUIDs: a generated value differs from every other string term.
func (s *Solver) fresh(t *Term, sb *strings.Builder) {
	isGen := t.op == "var" && strings.HasSuffix(t.name, "_genuuid")
	for _, g := range s.genStrs {
		fmt.Fprintf(sb, "(assert (not (= %s %s)))\n", s.ref(g), s.ref(t))
	}
	if isGen {
		for _, o := range s.allStrs {
			if !(o.op == "var" && strings.HasSuffix(o.name, "_genuuid")) {
				fmt.Fprintf(sb, "(assert (not (= %s %s)))\n", s.ref(t), s.ref(o))
			}
		}
		s.genStrs = append(s.genStrs, t)
	}
	s.allStrs = append(s.allStrs, t)
}

// SetTimeout changes the per-query time limit (ms) for the queries that follow.
func (s *Solver) SetTimeout(ms int) {
	if s.timeout == ms {
		return
	}
	s.timeout = ms
	if s.name != "cvc5" && !s.dead {
		s.send(fmt.Sprintf("(set-option :timeout %d)\n", ms))
	}
}

func (s *Solver) push() {
	s.send("(push 1)\n")
	s.marks = append(s.marks, len(s.journal))
	s.scMarks = append(s.scMarks, len(s.scList))
}

// SetEUFStrings selects the string encoding for the next path (must be called before anything is sent for it).
func (s *Solver) SetEUFStrings(on bool) { s.euf = on && s.name != "cvc5" }

func (s *Solver) pop() {
	s.send("(pop 1)\n")
	m := s.marks[len(s.marks)-1]
	s.marks = s.marks[:len(s.marks)-1]
	for _, id := range s.journal[m:] {
		delete(s.defined, id)
	}
	s.journal = s.journal[:m]
	sm := s.scMarks[len(s.scMarks)-1]
	s.scMarks = s.scMarks[:len(s.scMarks)-1]
	s.scList = s.scList[:sm]
}

// ref prints a reference to t in the current string encoding.
func (s *Solver) ref(t *Term) string {
	if s.euf && t.op == "const" && t.sort == SStr {
		if t.cv.(string) == "" {
			return "sc_empty"
		}
		return "sc" + strconv.Itoa(t.id)
	}
	return refSMT(t)
}

func (s *Solver) sortName(srt Sort) string {
	if s.euf && srt == SStr {
		return "Str"
	}
	return srt.String()
}

func (s *Solver) body(t *Term) string {
	if !s.euf {
		return bodySMT(t)
	}
	switch {
	case t.op == "strlen64":
		return "((_ int2bv 64) (slen " + s.ref(t.args[0]) + "))"
	case strings.HasPrefix(t.op, "lencmp:"):
		parts := strings.SplitN(t.op, ":", 3)
		return "(" + parts[1] + " (slen " + s.ref(t.args[0]) + ") " + parts[2] + ")"
	case t.op == "uf:isuuid":
		return "(isuuid_a " + s.ref(t.args[0]) + ")"
	case strings.HasPrefix(t.op, "str."):
		panic(engineAbort{"realstrings", t.op})
	}
	op := t.op
	var sb strings.Builder
	sb.WriteByte('(')
	sb.WriteString(op)
	for _, a := range t.args {
		sb.WriteByte(' ')
		sb.WriteString(s.ref(a))
	}
	sb.WriteByte(')')
	return sb.String()
}

// define emits declarations/definitions for t and its sub-terms not yet known in the current scope.
func (s *Solver) define(t *Term, sb *strings.Builder) {
	if s.defined[t.id] {
		return
	}
	switch t.op {
	case "const":
		if t.sort == SStr && !s.euf {
			s.fresh(t, sb)
			s.defined[t.id] = true
			s.journal = append(s.journal, t.id)
			return
		}
		if !s.euf || t.sort != SStr || t.cv.(string) == "" {
			return
		}
		lit := t.cv.(string)
		name := s.ref(t)
		fmt.Fprintf(sb, "(declare-const %s Str)\n(assert (= (slen %s) %d))\n", name, name, len(lit))
		if uuidLower.MatchString(lit) {
			fmt.Fprintf(sb, "(assert (isuuid_a %s))\n", name)
		} else {
			fmt.Fprintf(sb, "(assert (not (isuuid_a %s)))\n", name)
		}
		for _, o := range s.scList {
			if len(o.cv.(string)) == len(lit) {
				fmt.Fprintf(sb, "(assert (not (= %s %s)))\n", name, s.ref(o))
			}
		}
		s.scList = append(s.scList, t)
		s.fresh(t, sb)
	case "var":
		fmt.Fprintf(sb, "(declare-const %s %s)\n", t.name, s.sortName(t.sort))
		if s.euf && t.sort == SStr {
			fmt.Fprintf(sb, "(assert (>= (slen %s) 0))\n(assert (=> (= (slen %s) 0) (= %s sc_empty)))\n", t.name, t.name, t.name)
		}
		if t.sort == SStr {
			s.fresh(t, sb)
		}
	default:
		for _, a := range t.args {
			s.define(a, sb)
		}
		fmt.Fprintf(sb, "(define-fun t%d () %s %s)\n", t.id, s.sortName(t.sort), s.body(t))
	}
	s.defined[t.id] = true
	s.journal = append(s.journal, t.id)
}

// Check decides satisfiability of the conjunction of asserts. Definitions are kept at path level (they do not
// affect satisfiability); the assertions live only inside the query's own scope. With wantModel, values of
// vars are returned on sat.
func (s *Solver) Check(asserts []*Term, vars []*Term, wantModel bool) (Result, map[string]interface{}) {
	start := time.Now()
	s.Stats.Queries++
	s.ensureFresh()
	var sb strings.Builder
	for _, t := range asserts {
		s.define(t, &sb)
	}
	if wantModel {
		// everything the model is read for must be declared before check-sat (declarations may carry axioms)
		for _, v := range vars {
			s.define(v, &sb)
		}
	}
	sb.WriteString("(push 1)\n")
	for _, t := range asserts {
		fmt.Fprintf(&sb, "(assert %s)\n", s.ref(t))
	}
	sb.WriteString("(check-sat)\n")
	s.send(sb.String())
	// watchdog: some theories (sequences in z3 4.8) do not honour the solver's own time limit
	proc := s.cmd.Process
	s.LastKilled = false
	watchdog := time.AfterFunc(time.Duration(s.timeout+3000)*time.Millisecond, func() {
		s.Stats.Killed++
		s.LastKilled = true
		proc.Kill()
	})
	res, hadErr := s.readResult()
	var model map[string]interface{}
	if res == Sat && wantModel && !hadErr {
		model = s.getValues(vars)
	}
	watchdog.Stop()
	if !s.dead {
		s.send("(pop 1)\n")
	}
	if hadErr {
		s.Stats.Errors++
		res = Unknown
	}
	switch res {
	case Sat:
		s.Stats.Sat++
	case Unsat:
		s.Stats.Unsat++
	default:
		s.Stats.Unknown++
	}
	s.Stats.Time += time.Since(start)
	return res, model
}

func (s *Solver) readResult() (Result, bool) {
	hadErr := false
	for {
		line, err := s.out.ReadString('\n')
		if err != nil {
			s.dead = true
			return Unknown, true
		}
		line = strings.TrimSpace(line)
		switch {
		case line == "sat":
			return Sat, hadErr
		case line == "unsat":
			return Unsat, hadErr
		case line == "unknown" || line == "timeout":
			return Unknown, hadErr
		case strings.HasPrefix(line, "(error"):
			hadErr = true
			if s.logw != nil {
				fmt.Fprintf(s.logw, "; SOLVER ERROR: %s\n", line)
			}
			LastSolverError = line
		case line == "":
		default:
			// unexpected output (e.g. multi-line error); keep reading
		}
	}
}

var logSeq atomic.Int32

// LastSolverError keeps the most recent error line for diagnostics.
var LastSolverError string

func (s *Solver) getValues(vars []*Term) map[string]interface{} {
	if len(vars) == 0 {
		return map[string]interface{}{}
	}
	var sb strings.Builder
	sb.WriteString("(get-value (")
	n := 0
	for _, v := range vars {
		sb.WriteString(s.ref(v))
		sb.WriteByte(' ')
		n++
	}
	// euf strings: also the classes of the declared constants, and length / uuid-ness of every string term
	var strTerms []*Term
	if s.euf {
		for _, v := range vars {
			if v.sort == SStr {
				strTerms = append(strTerms, v)
			}
		}
		for _, c := range s.scList {
			sb.WriteString(s.ref(c))
			sb.WriteByte(' ')
		}
		sb.WriteString("sc_empty ")
		for _, v := range strTerms {
			fmt.Fprintf(&sb, "(slen %s) (isuuid_a %s) ", s.ref(v), s.ref(v))
		}
	}
	sb.WriteString("))\n")
	s.send(sb.String())
	text, err := s.readSexp()
	if err != nil {
		s.dead = true
		return nil
	}
	ex, _, perr := parseSexp(text, 0)
	if perr != nil {
		return nil
	}
	model := make(map[string]interface{})
	if len(ex.list) < n {
		return model
	}
	for i := 0; i < n; i++ {
		pair := ex.list[i]
		if len(pair.list) != 2 {
			continue
		}
		if s.euf && vars[i].sort == SStr {
			model[refSMT(vars[i])] = abstractStr(pair.list[1].atom)
			continue
		}
		model[refSMT(vars[i])] = decodeValue(pair.list[1], vars[i].sort)
	}
	if s.euf {
		s.concretizeStrings(model, vars, strTerms, ex.list[n:])
	}
	return model
}

type abstractStr string

// concretizeStrings turns the classes of the uninterpreted string sort into real strings.
func (s *Solver) concretizeStrings(model map[string]interface{}, vars, strTerms []*Term, rest []*sexp) {
	classLit := map[string]string{}
	used := map[string]bool{}
	k := 0
	for _, c := range s.scList {
		if k < len(rest) && len(rest[k].list) == 2 {
			classLit[rest[k].list[1].atom] = c.cv.(string)
			used[c.cv.(string)] = true
		}
		k++
	}
	if k < len(rest) && len(rest[k].list) == 2 {
		classLit[rest[k].list[1].atom] = ""
	}
	k++
	used[""] = true
	gen := 0
	for _, v := range strTerms {
		var ln int64
		isU := false
		if k+1 < len(rest) && len(rest[k].list) == 2 && len(rest[k+1].list) == 2 {
			ln, _ = strconv.ParseInt(rest[k].list[1].atom, 10, 64)
			isU = rest[k+1].list[1].atom == "true"
		}
		k += 2
		cls, _ := model[refSMT(v)].(abstractStr)
		if lit, ok := classLit[string(cls)]; ok {
			model[refSMT(v)] = lit
			continue
		}
		var str string
		for {
			gen++
			switch {
			case isU:
				str = fmt.Sprintf("aaaaaaaa-0000-4000-8000-%012d", gen)
			case ln <= 0:
				str = "" // cannot happen: length-0 strings are sc_empty
			case ln == 1:
				str = string(rune('a' + gen%26))
				if gen >= 26 {
					str = string(rune(0x100 + gen))
				}
			default:
				base := "s" + strconv.FormatInt(int64(gen), 36)
				if int64(len(base)) > ln {
					base = base[int64(len(base))-ln:]
				}
				if ln > 1<<16 {
					ln = int64(len(base))
				}
				str = base + strings.Repeat("_", int(ln)-len(base))
			}
			if !used[str] {
				break
			}
		}
		used[str] = true
		classLit[string(cls)] = str
		model[refSMT(v)] = str
	}
}

// readSexp reads one balanced s-expression from the solver output.
func (s *Solver) readSexp() (string, error) {
	var sb strings.Builder
	depth := 0
	inStr := false
	started := false
	for {
		b, err := s.out.ReadByte()
		if err != nil {
			return "", err
		}
		sb.WriteByte(b)
		if inStr {
			if b == '"' {
				inStr = false
			}
			continue
		}
		switch b {
		case '"':
			inStr = true
		case '(':
			depth++
			started = true
		case ')':
			depth--
			if started && depth == 0 {
				return sb.String(), nil
			}
		}
	}
}

type sexp struct {
	atom string
	str  bool
	list []*sexp
	isL  bool
}

func parseSexp(s string, i int) (*sexp, int, error) {
	for i < len(s) && (s[i] == ' ' || s[i] == '\n' || s[i] == '\t' || s[i] == '\r') {
		i++
	}
	if i >= len(s) {
		return nil, i, fmt.Errorf("eof")
	}
	if s[i] == '(' {
		n := &sexp{isL: true}
		i++
		for {
			for i < len(s) && (s[i] == ' ' || s[i] == '\n' || s[i] == '\t' || s[i] == '\r') {
				i++
			}
			if i >= len(s) {
				return nil, i, fmt.Errorf("eof in list")
			}
			if s[i] == ')' {
				return n, i + 1, nil
			}
			c, j, err := parseSexp(s, i)
			if err != nil {
				return nil, j, err
			}
			n.list = append(n.list, c)
			i = j
		}
	}
	if s[i] == '"' {
		var sb strings.Builder
		i++
		for i < len(s) {
			if s[i] == '"' {
				if i+1 < len(s) && s[i+1] == '"' {
					sb.WriteByte('"')
					i += 2
					continue
				}
				i++
				break
			}
			sb.WriteByte(s[i])
			i++
		}
		return &sexp{atom: sb.String(), str: true}, i, nil
	}
	j := i
	for j < len(s) && !strings.ContainsRune(" \n\t\r()", rune(s[j])) {
		j++
	}
	return &sexp{atom: s[i:j]}, j, nil
}

func unescapeSMT(s string) string {
	var sb strings.Builder
	for i := 0; i < len(s); i++ {
		if s[i] == '\\' && i+1 < len(s) {
			if s[i+1] == 'u' && i+2 < len(s) && s[i+2] == '{' {
				j := strings.IndexByte(s[i:], '}')
				if j > 0 {
					if v, err := strconv.ParseUint(s[i+3:i+j], 16, 32); err == nil {
						sb.WriteRune(rune(v))
						i += j
						continue
					}
				}
			} else if s[i+1] == 'u' && i+5 < len(s) {
				if v, err := strconv.ParseUint(s[i+2:i+6], 16, 32); err == nil {
					sb.WriteRune(rune(v))
					i += 5
					continue
				}
			} else if s[i+1] == 'x' && i+3 < len(s) {
				if v, err := strconv.ParseUint(s[i+2:i+4], 16, 32); err == nil {
					sb.WriteRune(rune(v))
					i += 3
					continue
				}
			}
		}
		sb.WriteByte(s[i])
	}
	return sb.String()
}

func parseBits(a string) (uint64, int, bool) {
	if strings.HasPrefix(a, "#x") {
		v, err := strconv.ParseUint(a[2:], 16, 64)
		return v, 4 * (len(a) - 2), err == nil
	}
	if strings.HasPrefix(a, "#b") {
		v, err := strconv.ParseUint(a[2:], 2, 64)
		return v, len(a) - 2, err == nil
	}
	return 0, 0, false
}

func decodeValue(e *sexp, sort Sort) interface{} {
	switch sort {
	case SBool:
		return e.atom == "true"
	case SStr:
		return unescapeSMT(e.atom)
	case SBV8, SBV16, SBV32, SBV64:
		if v, _, ok := parseBits(e.atom); ok {
			return v
		}
		if e.isL && len(e.list) == 3 && e.list[0].atom == "_" && strings.HasPrefix(e.list[1].atom, "bv") {
			v, _ := strconv.ParseUint(e.list[1].atom[2:], 10, 64)
			return v
		}
		return uint64(0)
	case SF64:
		if e.isL && len(e.list) == 4 && e.list[0].atom == "fp" {
			sg, _, _ := parseBits(e.list[1].atom)
			ex, _, _ := parseBits(e.list[2].atom)
			mt, _, _ := parseBits(e.list[3].atom)
			return math.Float64frombits(sg<<63 | ex<<52 | mt)
		}
		if e.isL && len(e.list) >= 2 && e.list[0].atom == "_" {
			switch e.list[1].atom {
			case "+zero":
				return 0.0
			case "-zero":
				return math.Copysign(0, -1)
			case "+oo":
				return math.Inf(1)
			case "-oo":
				return math.Inf(-1)
			case "NaN":
				return math.NaN()
			}
		}
		return 0.0
	}
	return nil
}
