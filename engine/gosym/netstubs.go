package gosym

// Connection-level environment for the client: listeners registered by the harness (verifrt.Listen), a dial that
// reaches them, rpc2 clients created over such a connection (both directions carried as JSON trees, synchronously,
// A-RPC), connection cuts, context, tickers, the backoff loop, and metrics as no-ops.

import (
	"fmt"
	"go/types"
	"strings"

	"golang.org/x/tools/go/ssa"
)

type listener struct {
	endpoint string
	peer     value // func(conn *rpc2.Client, method string, args []json.RawMessage) (interface{}, error)
	open     bool
}

// dialedClient is the state of an rpc2 client created over a dialled connection.
type dialedClient struct {
	lst        *listener
	handlers   map[string]value
	serverSide *value // the handle the listener's peer uses to call back into this client
	disc       *gochan
	closed     bool
}

func (ex *exec) resetNet() {
	ex.listeners = nil
	ex.dialed = nil
	ex.serverSides = nil
	ex.ticks = 0
	ex.retries = 0
	ex.blobStrs = nil
}

func (ex *exec) shutdownErr() value {
	if pkg := ex.prog.ImportedPackage("github.com/cenkalti/rpc2"); pkg != nil {
		if g, ok := pkg.Members["ErrShutdown"].(*ssa.Global); ok {
			cell := ex.global(g)
			if e, ok := (*cell).(iface); !ok || e.t == nil {
				*cell = ex.mkError("connection is shut down")
			}
			return *cell
		}
	}
	return ex.mkError("connection is shut down")
}

func (ex *exec) closeDialed(dc *dialedClient) {
	if dc.closed {
		return
	}
	dc.closed = true
	if dc.disc != nil {
		dc.disc.closed = true
	}
}

func concreteString(v value, what string) string {
	s, ok := v.(string)
	if !ok {
		panic(unsupported("%s must be a concrete string", what))
	}
	return s
}

// callHandler delivers a call made through the server-side handle to the handler the client registered.
func (ex *exec) callHandler(fr *frame, dc *dialedClient, client *value, method string, args value, reply value) value {
	h, ok := dc.handlers[method]
	if !ok {
		return ex.mkError("rpc2: can't find method " + method)
	}
	var sig *types.Signature
	switch f := h.(type) {
	case *ssa.Function:
		sig = f.Signature
	case *closure:
		sig = f.Fn.Signature
	default:
		panic(unsupported("rpc2 handler of kind %T", h))
	}
	if sig.Params().Len() != 3 {
		panic(unsupported("rpc2 handler with %d parameters", sig.Params().Len()))
	}
	argT := sig.Params().At(1).Type()
	replyPT, ok := sig.Params().At(2).Type().Underlying().(*types.Pointer)
	if !ok {
		panic(unsupported("rpc2 handler whose reply is not a pointer"))
	}
	blob, merr := ex.jsonMarshal(fr, args.(iface))
	if e := merr.(iface); e.t != nil {
		return e
	}
	argSlot := new(value)
	*argSlot = zero(argT)
	if e := ex.jsonUnmarshal(fr, blob, iface{t: types.NewPointer(argT), v: argSlot}).(iface); e.t != nil {
		return e
	}
	replySlot := new(value)
	*replySlot = zero(replyPT.Elem())
	res := ex.call(fr, 0, h, []value{client, *argSlot, replySlot})
	if e, ok := res.(iface); ok && e.t != nil {
		return e
	}
	rp, _ := reply.(iface)
	if rp.t == nil {
		return iface{}
	}
	rblob, rerr := ex.jsonMarshal(fr, iface{t: replyPT.Elem(), v: *replySlot})
	if e := rerr.(iface); e.t != nil {
		return e
	}
	return ex.jsonUnmarshal(fr, rblob, rp)
}

// dialedCall handles Call/CallWithContext on clients created over a dialled connection or on their server-side
// handles; ok is false for any other client.
func (ex *exec) dialedCall(fr *frame, client *value, method value, args value, reply value) (value, bool) {
	if dc, ok := ex.dialed[client]; ok {
		if dc.closed {
			return ex.shutdownErr(), true
		}
		ex.rpcCalls++
		blob, merr := ex.jsonMarshal(fr, args.(iface))
		if e := merr.(iface); e.t != nil {
			return e, true
		}
		node := blob.(*jsonBlob).node
		if node.kind == jLazy {
			node = ex.resolveLazy(node)
		}
		var raw []value
		if node.kind == jArr {
			for _, c := range node.arr {
				raw = append(raw, &jsonBlob{node: c})
			}
		} else {
			raw = []value{&jsonBlob{node: node}}
		}
		res := ex.call(fr, 0, dc.lst.peer, []value{dc.serverSide, method, raw}).(tuple)
		if e := res[1].(iface); e.t != nil {
			return e, true
		}
		if dc.closed {
			// the connection was cut while the call was in flight: the reply is lost
			return ex.shutdownErr(), true
		}
		rblob, rerr := ex.jsonMarshal(fr, res[0].(iface))
		if e := rerr.(iface); e.t != nil {
			return e, true
		}
		rp, _ := reply.(iface)
		if rp.t == nil {
			return iface{}, true
		}
		return ex.jsonUnmarshal(fr, rblob, rp), true
	}
	if cl, ok := ex.serverSides[client]; ok {
		dc := ex.dialed[cl]
		if dc.closed {
			return ex.shutdownErr(), true
		}
		return ex.callHandler(fr, dc, cl, concreteString(method, "rpc method"), args, reply), true
	}
	return nil, false
}

func init() {
	const rpc = "github.com/cenkalti/rpc2"
	reg(rtPkg+".Listen", func(ex *exec, fr *frame, fn *ssa.Function, a []value) value {
		l := &listener{endpoint: fmt.Sprintf("unix:/verif/sock%d", len(ex.listeners)+1), peer: a[0], open: true}
		ex.listeners = append(ex.listeners, l)
		return l.endpoint
	})
	reg(rtPkg+".SetListening", func(ex *exec, fr *frame, fn *ssa.Function, a []value) value {
		ep := concreteString(a[0], "endpoint")
		for _, l := range ex.listeners {
			if l.endpoint == ep {
				l.open = a[1].(bool)
			}
		}
		return nil
	})
	reg(rtPkg+".CutConnections", func(ex *exec, fr *frame, fn *ssa.Function, a []value) value {
		for _, dc := range ex.dialed {
			ex.closeDialed(dc)
		}
		return nil
	})
	reg("(*net.Dialer).DialContext", func(ex *exec, fr *frame, fn *ssa.Function, a []value) value {
		network, addr := concreteString(a[2], "network"), concreteString(a[3], "address")
		for _, l := range ex.listeners {
			if l.endpoint == network+":"+addr && l.open {
				return tuple{iface{t: ex.fake("net.conn"), v: &opaque{kind: "conn", data: l}}, iface{}}
			}
		}
		return tuple{iface{}, ex.mkError("dial " + network + " " + addr + ": connect: connection refused")}
	})
	reg(rpc+"/jsonrpc.NewJSONCodec", func(ex *exec, fr *frame, fn *ssa.Function, a []value) value {
		c := a[0].(iface)
		return iface{t: ex.fake("rpc2.codec"), v: c.v}
	})
	reg(rpc+".NewClientWithCodec", func(ex *exec, fr *frame, fn *ssa.Function, a []value) value {
		ct := fn.Signature.Results().At(0).Type().Underlying().(*types.Pointer).Elem()
		slot := new(value)
		*slot = zero(ct)
		o, _ := a[0].(iface).v.(*opaque)
		if o == nil || o.kind != "conn" {
			panic(unsupported("rpc2.NewClientWithCodec over a connection not obtained from the dial stub"))
		}
		ss := new(value)
		*ss = zero(ct)
		if ex.dialed == nil {
			ex.dialed = map[*value]*dialedClient{}
			ex.serverSides = map[*value]*value{}
		}
		ex.dialed[slot] = &dialedClient{lst: o.data.(*listener), handlers: map[string]value{}, serverSide: ss,
			disc: &gochan{cap: 0, elemT: types.NewStruct(nil, nil)}}
		ex.serverSides[ss] = slot
		return slot
	})
	reg("github.com/cenkalti/backoff/v4.Retry", func(ex *exec, fr *frame, fn *ssa.Function, a []value) value {
		for {
			ex.retries++
			if ex.retries > 6 {
				panic(engineAbort{"incomplete", "unwinding bound: more than 6 reconnect attempts on one path"})
			}
			r := ex.call(fr, 0, a[0], nil)
			if e, ok := r.(iface); !ok || e.t == nil {
				return iface{}
			}
		}
	})
	for _, n := range []string{"NewConstantBackOff", "NewExponentialBackOff"} {
		reg("github.com/cenkalti/backoff/v4."+n, returnZero)
	}

	// context: never cancelled unless the harness cancels it
	newCtx := func(ex *exec) iface {
		return iface{t: ex.fake("context.ctx"), v: &opaque{kind: "ctx", data: &gochan{cap: 0, elemT: types.NewStruct(nil, nil)}}}
	}
	for _, n := range []string{"Background", "TODO"} {
		reg("context."+n, func(ex *exec, fr *frame, fn *ssa.Function, a []value) value { return newCtx(ex) })
	}
	for _, n := range []string{"WithTimeout", "WithCancel", "WithDeadline"} {
		reg("context."+n, func(ex *exec, fr *frame, fn *ssa.Function, a []value) value {
			c := newCtx(ex)
			ch := c.v.(*opaque).data.(*gochan)
			cancel := &intrinsicFn{name: "context.cancel", fn: func(ex *exec, fr *frame, args []value) value {
				ch.closed = true
				return nil
			}}
			return tuple{c, cancel}
		})
	}
	reg("context.WithValue", func(ex *exec, fr *frame, fn *ssa.Function, a []value) value { return a[0] })
	reg("context.ctx.Done", func(ex *exec, fr *frame, fn *ssa.Function, a []value) value {
		return a[0].(*opaque).data.(*gochan)
	})
	reg("context.ctx.Err", func(ex *exec, fr *frame, fn *ssa.Function, a []value) value {
		if a[0].(*opaque).data.(*gochan).closed {
			return ex.mkError("context canceled")
		}
		return iface{}
	})
	reg("context.ctx.Value", func(ex *exec, fr *frame, fn *ssa.Function, a []value) value { return iface{} })
	reg("context.ctx.Deadline", func(ex *exec, fr *frame, fn *ssa.Function, a []value) value {
		return tuple{structure{uint64(0), int64(0), (*value)(nil)}, false}
	})

	// tickers and timers: the channel may deliver at any time; polling loops are bounded
	mkTimer := func(ex *exec, fn *ssa.Function) value {
		ex.ticks++
		if ex.ticks > 8 {
			panic(engineAbort{"incomplete", "unwinding bound: more than 8 timers/tickers created on one path"})
		}
		pt := fn.Signature.Results().At(0).Type().Underlying().(*types.Pointer)
		st := zero(pt.Elem()).(structure)
		st[0] = &gochan{cap: 1, mayFire: true, elemT: pt.Elem().Underlying().(*types.Struct).Field(0).Type().Underlying().(*types.Chan).Elem()}
		slot := new(value)
		*slot = st
		return slot
	}
	reg("time.NewTicker", func(ex *exec, fr *frame, fn *ssa.Function, a []value) value { return mkTimer(ex, fn) })
	reg("time.NewTimer", func(ex *exec, fr *frame, fn *ssa.Function, a []value) value { return mkTimer(ex, fn) })
	reg("(*time.Ticker).Stop", func(ex *exec, fr *frame, fn *ssa.Function, a []value) value { return nil })
	reg("(*time.Ticker).Reset", func(ex *exec, fr *frame, fn *ssa.Function, a []value) value { return nil })
	reg("(*time.Timer).Stop", func(ex *exec, fr *frame, fn *ssa.Function, a []value) value { return false })
	reg("(*time.Timer).Reset", func(ex *exec, fr *frame, fn *ssa.Function, a []value) value { return false })
}

// opaquePkg: every function of these packages is a no-op returning zero values; interface and pointer results are
// non-nil placeholders whose methods are no-ops too (metrics).
func opaquePkg(path string) bool {
	return strings.HasPrefix(path, "github.com/prometheus/")
}

func (ex *exec) opaqueResult(t types.Type) value {
	switch u := t.Underlying().(type) {
	case *types.Interface:
		return iface{t: ex.fake("prometheus.metric"), v: &opaque{kind: "metric"}}
	case *types.Pointer:
		slot := new(value)
		*slot = zero(u.Elem())
		return slot
	}
	return zero(t)
}

func opaqueCall(ex *exec, fr *frame, fn *ssa.Function, a []value) value {
	res := fn.Signature.Results()
	switch res.Len() {
	case 0:
		return nil
	case 1:
		return ex.opaqueResult(res.At(0).Type())
	}
	t := make(tuple, res.Len())
	for i := range t {
		t[i] = ex.opaqueResult(res.At(i).Type())
	}
	return t
}

func init() {
	reg("internal/bytealg.IndexByteString", func(ex *exec, fr *frame, fn *ssa.Function, a []value) value {
		s, ok := a[0].(string)
		c, ok2 := a[1].(uint8)
		if !ok || !ok2 {
			panic(unsupported("bytealg.IndexByteString on symbolic data"))
		}
		return strings.IndexByte(s, c)
	})
	reg("internal/bytealg.CountString", func(ex *exec, fr *frame, fn *ssa.Function, a []value) value {
		s, ok := a[0].(string)
		c, ok2 := a[1].(uint8)
		if !ok || !ok2 {
			panic(unsupported("bytealg.CountString on symbolic data"))
		}
		return strings.Count(s, string([]byte{c}))
	})
	reg("(*strings.Builder).copyCheck", func(ex *exec, fr *frame, fn *ssa.Function, a []value) value { return nil })
	reg("internal/bytealg.MakeNoZero", func(ex *exec, fr *frame, fn *ssa.Function, a []value) value {
		n, ok := a[0].(int)
		if !ok {
			panic(unsupported("bytealg.MakeNoZero of symbolic length"))
		}
		b := make([]value, n)
		for i := range b {
			b[i] = uint8(0)
		}
		return b
	})
	reg("(*strings.Builder).String", func(ex *exec, fr *frame, fn *ssa.Function, a []value) value {
		st := (*a[0].(*value)).(structure)
		b, _ := st[1].([]value)
		raw, ok := bytesOf(b)
		if !ok {
			panic(unsupported("strings.Builder holding symbolic bytes"))
		}
		return string(raw)
	})
	reg("github.com/go-logr/logr.FromContext", func(ex *exec, fr *frame, fn *ssa.Function, a []value) value {
		return tuple{zero(fn.Signature.Results().At(0).Type()), ex.mkError("no logr.Logger was present")}
	})
	reg("github.com/go-logr/logr.FromContextOrDiscard", returnZero)
	reg("(*fmt.wrapError).Error", func(ex *exec, fr *frame, fn *ssa.Function, a []value) value {
		return (*a[0].(*value)).(structure)[0]
	})
	reg("internal/bytealg.IndexString", func(ex *exec, fr *frame, fn *ssa.Function, a []value) value {
		s, ok := a[0].(string)
		t, ok2 := a[1].(string)
		if !ok || !ok2 {
			panic(unsupported("bytealg.IndexString on symbolic data"))
		}
		return strings.Index(s, t)
	})
}

// ---- the text of a JSON tree with symbolic leaves, as an opaque string ----

type blobStr struct {
	node *jnode
	term *Term
}

func (n *jnode) hasSymLeaf() bool {
	switch n.kind {
	case jArr:
		for _, c := range n.arr {
			if c.hasSymLeaf() {
				return true
			}
		}
		return false
	case jObj:
		for i, c := range n.vals {
			if isSym(n.keys[i]) || c.hasSymLeaf() {
				return true
			}
		}
		return false
	case jLazy:
		return true
	}
	return isSym(n.v)
}

// sameTree: the condition under which two trees print the same text (same shape assumed to print alike).
func (ex *exec) sameTree(a, b *jnode) *Term {
	tt := ex.tt
	if a.kind != b.kind {
		return tt.Bool(false)
	}
	switch a.kind {
	case jNull:
		return tt.Bool(true)
	case jArr:
		if len(a.arr) != len(b.arr) {
			return tt.Bool(false)
		}
		r := tt.Bool(true)
		for i := range a.arr {
			r = tt.And(r, ex.sameTree(a.arr[i], b.arr[i]))
		}
		return r
	case jObj:
		if len(a.keys) != len(b.keys) {
			return tt.Bool(false)
		}
		r := tt.Bool(true)
		for i := range a.keys {
			r = tt.And(r, ex.eqTerm(types.Typ[types.String], a.keys[i], b.keys[i]))
			r = tt.And(r, ex.sameTree(a.vals[i], b.vals[i]))
		}
		return r
	case jLazy:
		panic(unsupported("text of a lazy JSON value"))
	case jStr:
		return ex.eqTerm(types.Typ[types.String], a.v, b.v)
	case jBool:
		return ex.eqTerm(types.Typ[types.Bool], a.v, b.v)
	}
	if !isSym(a.v) && !isSym(b.v) {
		return tt.Bool(a.String() == b.String())
	}
	panic(unsupported("text of a JSON tree with symbolic numbers"))
}

// blobString stands for string(rawJSON) of a tree with symbolic leaves: a fresh string, equal to an earlier such
// string exactly when the trees print alike; []byte(...) of it gives the tree back.
func (ex *exec) blobString(n *jnode) value {
	for _, b := range ex.blobStrs {
		if b.node == n {
			return sym{b.term, types.String}
		}
	}
	kv := ex.freshVar("jsontext", SStr)
	for _, b := range ex.blobStrs {
		ex.assertPC(ex.tt.Eq(ex.tt.Eq(kv, b.term), ex.sameTree(b.node, n)))
	}
	ex.assertPC(ex.tt.Not(ex.uuidTerm(kv)))
	ex.assertPC(ex.tt.lenCmp(">=", kv, 2))
	ex.blobStrs = append(ex.blobStrs, blobStr{n, kv})
	return sym{kv, types.String}
}

func init() {
	// golang.org/x/text/cases.Title(language.Und, cases.NoLower).String(s): upper-case the first letter of every word
	reg("golang.org/x/text/cases.Title", returnZero)
	reg("(golang.org/x/text/cases.Caser).String", func(ex *exec, fr *frame, fn *ssa.Function, a []value) value {
		s, ok := a[1].(string)
		if !ok {
			panic(unsupported("cases.Title of a symbolic string"))
		}
		out := []rune(s)
		start := true
		for i, r := range out {
			isWord := r == '\'' || r >= '0' && r <= '9' || r >= 'a' && r <= 'z' || r >= 'A' && r <= 'Z' || r > 127
			if isWord && start && r >= 'a' && r <= 'z' {
				out[i] = r - 'a' + 'A'
			}
			start = !isWord
		}
		return string(out)
	})
}
