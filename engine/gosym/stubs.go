package gosym

// Environment stubs: logging, metrics, time, context, gob/sha256/hex index keys.

import (
	"go/token"
	"go/types"

	"golang.org/x/tools/go/ssa"
)

// returnZero returns the zero value(s) of the callee's result types.
func returnZero(ex *exec, fr *frame, fn *ssa.Function, a []value) value {
	res := fn.Signature.Results()
	switch res.Len() {
	case 0:
		return nil
	case 1:
		return zero(res.At(0).Type())
	}
	t := make(tuple, res.Len())
	for i := range t {
		t[i] = zero(res.At(i).Type())
	}
	return t
}

// returnRecv returns the receiver (first argument) unchanged.
func returnRecv(ex *exec, fr *frame, fn *ssa.Function, a []value) value { return a[0] }

func init() {
	const logr = "github.com/go-logr/logr"
	for _, m := range []string{"WithName", "WithValues", "V", "WithCallDepth", "WithSink", "WithCallStackHelper"} {
		reg("("+logr+".Logger)."+m, returnRecv)
	}
	for _, m := range []string{"Info", "Error"} {
		reg("("+logr+".Logger)."+m, func(ex *exec, fr *frame, fn *ssa.Function, a []value) value { return nil })
	}
	reg("("+logr+".Logger).Enabled", func(ex *exec, fr *frame, fn *ssa.Function, a []value) value { return false })
	reg("("+logr+".Logger).GetSink", returnZero)
	reg(logr+".Discard", returnZero)
	reg(logr+".New", returnZero)
	reg("github.com/go-logr/stdr.NewWithOptions", returnZero)
	reg("github.com/go-logr/stdr.New", returnZero)
	reg("github.com/go-logr/stdr.SetVerbosity", returnZero)
	reg("log.New", returnZero)
	reg("log.Default", returnZero)

	// gob + sha256 + hex: the multi-column index value. The buffer accumulates the values actually encoded;
	// the final hex string is modelled as an injective function of that list (fresh symbol, equal to an
	// earlier key iff the lists are equal component-wise).
	reg("encoding/gob.NewEncoder", func(ex *exec, fr *frame, fn *ssa.Function, a []value) value {
		w := a[0].(iface)
		slot := new(value)
		*slot = &opaque{kind: "gobenc", data: w.v}
		return slot
	})
	reg("(*encoding/gob.Encoder).Encode", func(ex *exec, fr *frame, fn *ssa.Function, a []value) value {
		enc := (*a[0].(*value)).(*opaque)
		buf, _ := enc.data.(*value)
		if ex.gobBufs == nil {
			ex.gobBufs = map[*value][]iface{}
		}
		ex.gobBufs[buf] = append(ex.gobBufs[buf], ex.force(a[1].(iface)))
		return iface{}
	})
	reg("(*bytes.Buffer).Bytes", func(ex *exec, fr *frame, fn *ssa.Function, a []value) value {
		buf := a[0].(*value)
		if recs, ok := ex.gobBufs[buf]; ok {
			return []value{&opaque{kind: "gobbytes", data: recs}}
		}
		return notHandled{}
	})
	reg("crypto/sha256.New", func(ex *exec, fr *frame, fn *ssa.Function, a []value) value {
		return iface{t: ex.fake("hash.sha256"), v: &opaque{kind: "sha256"}}
	})
	reg("hash.sha256.Sum", func(ex *exec, fr *frame, fn *ssa.Function, a []value) value {
		return a[1] // Sum(b) appends the digest of nothing written: a constant suffix
	})
	reg("hash.sha256.Write", func(ex *exec, fr *frame, fn *ssa.Function, a []value) value {
		panic(unsupported("sha256 over written data"))
	})
	reg("encoding/hex.EncodeToString", func(ex *exec, fr *frame, fn *ssa.Function, a []value) value {
		b, _ := a[0].([]value)
		if len(b) == 1 {
			if o, ok := b[0].(*opaque); ok && o.kind == "gobbytes" {
				recs, _ := o.data.([]iface)
				return ex.injectiveKey(recs)
			}
		}
		if raw, ok := bytesOf(b); ok {
			const hexd = "0123456789abcdef"
			out := make([]byte, 0, 2*len(raw))
			for _, c := range raw {
				out = append(out, hexd[c>>4], hexd[c&15])
			}
			return string(out)
		}
		panic(unsupported("hex.EncodeToString of symbolic bytes"))
	})
}

type gobKey struct {
	key   *Term
	comps []iface
}

// injectiveKey returns a string standing for an injective encoding of comps.
func (ex *exec) injectiveKey(comps []iface) value {
	tt := ex.tt
	same := func(a, b []iface) *Term {
		if len(a) != len(b) {
			return tt.Bool(false)
		}
		r := tt.Bool(true)
		for i := range a {
			if !sameType(a[i].t, b[i].t) {
				return tt.Bool(false)
			}
			if a[i].t == nil {
				continue
			}
			if !types.Comparable(a[i].t) {
				panic(unsupported("index key over uncomparable type %s", a[i].t))
			}
			r = tt.And(r, ex.eqTerm(a[i].t, a[i].v, b[i].v))
		}
		return r
	}
	for _, k := range ex.gobKeys {
		if c := same(k.comps, comps); c.isConst() && c.cv.(bool) {
			return sym{k.key, types.String}
		}
	}
	kv := ex.freshVar("idxkey", SStr)
	for _, k := range ex.gobKeys {
		c := same(k.comps, comps)
		eq := tt.Eq(kv, k.key)
		// kv == k.key  <=>  component lists equal
		ex.assertPC(tt.Eq(eq, c))
	}
	// the hex string is never empty and never a UUID: it ends with the 64 hex digits of a SHA-256 digest
	ex.assertPC(tt.Not(ex.uuidTerm(kv)))
	ex.assertPC(tt.lenCmp(">=", kv, 64))
	ex.gobKeys = append(ex.gobKeys, gobKey{kv, comps})
	return sym{kv, types.String}
}

// time: Now returns a fresh instant not before any earlier one; Since is the (symbolic, non-negative) difference.
func init() {
	reg("time.Now", func(ex *exec, fr *frame, fn *ssa.Function, a []value) value {
		t := ex.freshVar("now", SBV64)
		tt := ex.tt
		ex.assertPC(tt.BVCmp("bvsge", t, tt.BV(SBV64, 0)))
		ex.assertPC(tt.BVCmp("bvslt", t, tt.BV(SBV64, 1<<60)))
		if ex.lastNow != nil {
			ex.assertPC(tt.BVCmp("bvsge", t, ex.lastNow))
		}
		ex.lastNow = t
		// time.Time{wall uint64, ext int64, loc *Location}: ext carries the instant (nanoseconds)
		return structure{uint64(0), sym{t, types.Int64}, (*value)(nil)}
	})
	reg("time.Since", func(ex *exec, fr *frame, fn *ssa.Function, a []value) value {
		start := a[0].(structure)[1]
		now := allIntrinsics["time.Now"](ex, fr, fn, nil).(structure)[1]
		return ex.binop(token.SUB, types.Typ[types.Int64], now, start)
	})
	reg("(time.Time).Sub", func(ex *exec, fr *frame, fn *ssa.Function, a []value) value {
		return ex.binop(token.SUB, types.Typ[types.Int64], a[0].(structure)[1], a[1].(structure)[1])
	})
	reg("time.Sleep", func(ex *exec, fr *frame, fn *ssa.Function, a []value) value {
		ex.sleeps++
		if ex.sleeps > 3 {
			panic(engineAbort{"incomplete", "unwinding bound: more than 3 time.Sleep calls on one path (polling loop)"})
		}
		// sleeping advances the clock: the next Now is at least d later
		if ex.lastNow == nil {
			allIntrinsics["time.Now"](ex, fr, fn, nil)
		}
		ex.lastNow = ex.tt.BVBin("bvadd", ex.lastNow, ex.toTerm(ex.conv(types.Typ[types.Int64], types.Typ[types.Int64], a[0])))
		return nil
	})
}

// rpc2: Client.Call / CallWithContext invoke the peer function the harness registered with
// verifrt.NewRPCClient, synchronously; arguments and reply travel as JSON trees (A-RPC: blocking-mode rpc2
// delivers calls and replies in order, one handler at a time per connection).
func init() {
	const rpc = "github.com/cenkalti/rpc2"
	reg(rtPkg+".NewRPCClient", func(ex *exec, fr *frame, fn *ssa.Function, a []value) value {
		ct := fn.Signature.Results().At(0).Type().Underlying().(*types.Pointer).Elem()
		slot := new(value)
		*slot = zero(ct)
		if ex.rpcPeers == nil {
			ex.rpcPeers = map[*value]value{}
		}
		ex.rpcPeers[slot] = a[0]
		return slot
	})
	doCall := func(ex *exec, fr *frame, client *value, method value, args value, reply value) value {
		if r, ok := ex.dialedCall(fr, client, method, args, reply); ok {
			return r
		}
		peer, ok := ex.rpcPeers[client]
		if !ok {
			if client == nil {
				panic(runtimeError("invalid memory address or nil pointer dereference"))
			}
			panic(unsupported("rpc2.Client.Call on a client not created by verifrt.NewRPCClient"))
		}
		ex.rpcCalls++
		blob, merr := ex.jsonMarshal(fr, args.(iface))
		if e := merr.(iface); e.t != nil {
			return e
		}
		node := blob.(*jsonBlob).node
		if node.kind == jLazy {
			node = ex.resolveLazy(node)
		}
		var raw []value
		if node.kind == jArr {
			for _, c := range node.arr {
				raw = append(raw, &jsonBlob{node: c})
			}
		} else {
			raw = []value{&jsonBlob{node: node}}
		}
		res := ex.call(fr, 0, peer, []value{method, raw}).(tuple)
		if e := res[1].(iface); e.t != nil {
			return e
		}
		rv := res[0].(iface)
		rblob, rerr := ex.jsonMarshal(fr, rv)
		if e := rerr.(iface); e.t != nil {
			return e
		}
		rp := reply.(iface)
		if rp.t == nil {
			return iface{}
		}
		return ex.jsonUnmarshal(fr, rblob, rp)
	}
	reg("(*"+rpc+".Client).Call", func(ex *exec, fr *frame, fn *ssa.Function, a []value) value {
		return doCall(ex, fr, a[0].(*value), a[1], a[2], a[3])
	})
	reg("(*"+rpc+".Client).CallWithContext", func(ex *exec, fr *frame, fn *ssa.Function, a []value) value {
		return doCall(ex, fr, a[0].(*value), a[2], a[3], a[4])
	})
	reg("(*"+rpc+".Client).Close", func(ex *exec, fr *frame, fn *ssa.Function, a []value) value {
		if c, ok := a[0].(*value); ok {
			if dc, ok := ex.dialed[c]; ok {
				ex.closeDialed(dc)
			}
		}
		return iface{}
	})
	reg("(*"+rpc+".Client).Handle", func(ex *exec, fr *frame, fn *ssa.Function, a []value) value {
		if c, ok := a[0].(*value); ok {
			if dc, ok := ex.dialed[c]; ok {
				dc.handlers[concreteString(a[1], "rpc method")] = a[2].(iface).v
			}
		}
		return nil
	})
	reg("(*"+rpc+".Client).SetBlocking", func(ex *exec, fr *frame, fn *ssa.Function, a []value) value { return nil })
	reg("(*"+rpc+".Client).Run", func(ex *exec, fr *frame, fn *ssa.Function, a []value) value { return nil })
	reg("(*"+rpc+".Client).DisconnectNotify", func(ex *exec, fr *frame, fn *ssa.Function, a []value) value {
		if c, ok := a[0].(*value); ok {
			if dc, ok := ex.dialed[c]; ok {
				return dc.disc
			}
		}
		return &gochan{cap: 0, elemT: types.NewStruct(nil, nil)}
	})
	reg(rpc+".NewServer", returnZero)
	reg("(*"+rpc+".Server).Handle", func(ex *exec, fr *frame, fn *ssa.Function, a []value) value { return nil })
	reg("(*"+rpc+".Server).OnConnect", func(ex *exec, fr *frame, fn *ssa.Function, a []value) value { return nil })
	reg("(*"+rpc+".Server).OnDisconnect", func(ex *exec, fr *frame, fn *ssa.Function, a []value) value { return nil })
	reg(rtPkg+".RPCCalls", func(ex *exec, fr *frame, fn *ssa.Function, a []value) value { return ex.rpcCalls })
}
