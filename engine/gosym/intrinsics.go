package gosym

// Intrinsics and environment stubs for foreign packages (the trusted base), and the verifrt harness API.

import (
	"fmt"
	"go/token"
	"go/types"
	"regexp"
	"sort"
	"strconv"
	"strings"

	"golang.org/x/tools/go/ssa"
)

const rtPkg = "github.com/ovn-org/libovsdb/verifrt"

func siteOf(ex *exec, fr *frame) string {
	for f := fr; f != nil; f = f.caller {
		if f.cur != nil && f.cur.Pos().IsValid() {
			ps := ex.prog.Fset.Position(f.cur.Pos())
			return fmt.Sprintf("%s:%d", shortFile(ps.Filename), ps.Line)
		}
	}
	return ""
}

func strArg(v value) string {
	s, ok := v.(string)
	if !ok {
		panic(unsupported("symbolic string passed where a concrete one is required"))
	}
	return s
}

// uuidTerm is "t is a valid UUID string": decided natively for constants, otherwise the uninterpreted predicate
// isuuid with the axiom isuuid(t) => len(t) = 36 asserted once per term.
func (ex *exec) uuidTerm(t *Term) *Term {
	if t.isConst() {
		return ex.tt.Bool(uuidLower.MatchString(t.cv.(string)))
	}
	u := ex.tt.UFBool("isuuid", t)
	if ex.uuidAxioms == nil {
		ex.uuidAxioms = map[int]bool{}
	}
	if !ex.uuidAxioms[t.id] {
		ex.uuidAxioms[t.id] = true
		ex.uuidTerms = append(ex.uuidTerms, u)
		ex.assertPC(ex.tt.Or(ex.tt.Not(u), ex.tt.Eq(ex.tt.StrLen(t), ex.tt.BV(SBV64, 36))))
	}
	return u
}

var uuidLower = regexp.MustCompile(`^[0-9a-f]{8}-[0-9a-f]{4}-[0-9a-f]{4}-[0-9a-f]{4}-[0-9a-f]{12}$`)

// replayString maps a model string to the string used in native replay: strings the path constrains to be
// valid UUIDs are replaced, consistently, by real UUIDs.
func (ex *exec) replayString(v *Term, modelVal string, model map[string]interface{}) string {
	isU, _ := model[refSMT(ex.tt.UFBool("isuuid", v))].(bool)
	if !isU || !ex.uuidAxioms[v.id] || uuidLower.MatchString(modelVal) {
		return modelVal
	}
	if ex.uuidSubst == nil {
		ex.uuidSubst = map[string]string{}
	}
	if r, ok := ex.uuidSubst[modelVal]; ok {
		return r
	}
	r := fmt.Sprintf("aaaaaaaa-0000-4000-8000-%012d", len(ex.uuidSubst)+1)
	ex.uuidSubst[modelVal] = r
	return r
}

var uuidRe = regexp.MustCompile(`^[a-fA-F0-9]{8}-[a-fA-F0-9]{4}-[a-fA-F0-9]{4}-[a-fA-F0-9]{4}-[a-fA-F0-9]{12}$`)

// fmtArg renders an executor value for fmt verbs; symbolic parts become placeholders unless the whole is a string.
func (ex *exec) fmtNative(v value) interface{} {
	switch x := v.(type) {
	case iface:
		if x.t == ex.lazyT && x.t != nil {
			return "«json»"
		}
		if x.t == nil {
			return nil
		}
		// error / Stringer
		if _, isFake := x.t.(*fakeType); !isFake {
			if ex.hasMethod(x.t, "Error") != nil {
				if fn := ex.lookupExported(x.t, "Error"); fn != nil {
					r := ex.call(nil, 0, fn, []value{x.v})
					return ex.fmtNative(r)
				}
			}
			if ex.hasMethod(x.t, "String") != nil {
				if fn := ex.lookupExported(x.t, "String"); fn != nil && len(fn.Params) == 1 {
					r := ex.call(nil, 0, fn, []value{x.v})
					return ex.fmtNative(r)
				}
			}
		}
		return ex.fmtNative(x.v)
	case sym:
		return "«sym»"
	case bool, int, int8, int16, int32, int64, uint, uint8, uint16, uint32, uint64, uintptr, float32, float64, string, nil:
		return x
	case *value:
		if x == nil {
			return "<nil>"
		}
		return "&" + fmt.Sprint(ex.fmtNative(*x))
	case []value:
		parts := make([]interface{}, len(x))
		for i := range x {
			parts[i] = ex.fmtNative(x[i])
		}
		return parts
	case structure:
		parts := make([]interface{}, len(x))
		for i := range x {
			parts[i] = ex.fmtNative(x[i])
		}
		return struct{ F []interface{} }{parts}
	case *omap:
		m := map[string]interface{}{}
		for _, e := range x.live() {
			m[fmt.Sprint(ex.fmtNative(e.key))] = ex.fmtNative(e.val)
		}
		return m
	case rtype:
		return reflectTypeString(x.t)
	case rvalue:
		if !x.valid() {
			return "<invalid reflect.Value>"
		}
		return ex.fmtNative(x.get())
	case *jsonBlob:
		return x.node.String()
	}
	return toString(v)
}

// sprintf formats natively; if the format is only %s/%v/%q of strings it stays symbolic-aware via concat.
func (ex *exec) sprintf(format string, args []value) value {
	// symbolic-aware path: every verb is %s or %v applied to a string-kinded argument
	hasSymStr := false
	for _, a := range args {
		if i, ok := a.(iface); ok {
			if s, ok := i.v.(sym); ok && s.k == types.String {
				hasSymStr = true
			}
		}
	}
	if hasSymStr {
		if t, ok := ex.symSprintf(format, args); ok {
			return t
		}
	}
	nat := make([]interface{}, len(args))
	for i, a := range args {
		nat[i] = ex.fmtNative(a)
	}
	return fmt.Sprintf(format, nat...)
}

func (ex *exec) symSprintf(format string, args []value) (value, bool) {
	tt := ex.tt
	acc := tt.Str("")
	ai := 0
	for i := 0; i < len(format); i++ {
		c := format[i]
		if c != '%' {
			j := strings.IndexByte(format[i:], '%')
			if j < 0 {
				j = len(format) - i
			}
			acc = tt.Concat(acc, tt.Str(format[i:i+j]))
			i += j - 1
			continue
		}
		if i+1 >= len(format) {
			return nil, false
		}
		i++
		switch format[i] {
		case '%':
			acc = tt.Concat(acc, tt.Str("%"))
		case 's', 'v':
			if ai >= len(args) {
				return nil, false
			}
			a := args[ai]
			ai++
			iv, _ := a.(iface)
			if s, ok := iv.v.(sym); ok && s.k == types.String {
				acc = tt.Concat(acc, s.t)
			} else {
				acc = tt.Concat(acc, tt.Str(fmt.Sprintf("%"+string(format[i]), ex.fmtNative(a))))
			}
		default:
			if ai >= len(args) {
				return nil, false
			}
			a := args[ai]
			ai++
			iv, _ := a.(iface)
			if s, ok := iv.v.(sym); ok && s.k == types.String {
				_ = s
				return nil, false
			}
			acc = tt.Concat(acc, tt.Str(fmt.Sprintf("%"+string(format[i]), ex.fmtNative(a))))
		}
	}
	return fromTerm(acc, types.String), true
}

func (ex *exec) newErr(msg value) value {
	slot := new(value)
	*slot = structure{msg}
	return iface{t: ex.errorsStr, v: slot}
}

func (ex *exec) unwrapErr(e iface) iface {
	if e.t == nil {
		return e
	}
	if _, isFake := e.t.(*fakeType); isFake {
		return iface{}
	}
	if ex.hasMethod(e.t, "Unwrap") == nil {
		return iface{}
	}
	fn := ex.lookupExported(e.t, "Unwrap")
	if fn == nil || fn.Signature.Results().Len() != 1 {
		return iface{}
	}
	r, ok := ex.call(nil, 0, fn, []value{e.v}).(iface)
	if !ok {
		return iface{}
	}
	return r
}

func nativeStrings(v value) []string {
	s := v.([]value)
	out := make([]string, len(s))
	for i := range s {
		out[i] = strArg(s[i])
	}
	return out
}

func valStrings(ss []string) []value {
	out := make([]value, len(ss))
	for i, s := range ss {
		out[i] = s
	}
	return out
}

func init() {
	// ---------------- verifrt ----------------
	reg(rtPkg+".Int", func(ex *exec, fr *frame, fn *ssa.Function, a []value) value {
		return ex.nondet("int", SBV64, types.Int)
	})
	reg(rtPkg+".Int64", func(ex *exec, fr *frame, fn *ssa.Function, a []value) value {
		return ex.nondet("int64", SBV64, types.Int64)
	})
	reg(rtPkg+".Bool", func(ex *exec, fr *frame, fn *ssa.Function, a []value) value {
		return ex.nondet("bool", SBool, types.Bool)
	})
	reg(rtPkg+".Float64", func(ex *exec, fr *frame, fn *ssa.Function, a []value) value {
		v := ex.nondet("float64", SF64, types.Float64).(sym)
		// finite reals only (NaN/Inf are outside every claim)
		ex.assertPC(ex.tt.Not(ex.tt.Or(ex.tt.FIsNaN(v.t), ex.tt.FIsInf(v.t))))
		ex.tt.nonNaN[v.t.id] = true
		return v
	})
	reg(rtPkg+".String", func(ex *exec, fr *frame, fn *ssa.Function, a []value) value {
		return ex.nondet("string", SStr, types.String)
	})
	reg(rtPkg+".UUID", func(ex *exec, fr *frame, fn *ssa.Function, a []value) value {
		v := ex.nondet("uuid", SStr, types.String).(sym)
		ex.assertPC(ex.uuidTerm(v.t))
		ex.assertPC(ex.tt.Eq(ex.tt.StrLen(v.t), ex.tt.BV(SBV64, 36)))
		return v
	})
	reg(rtPkg+".LazyJSON", func(ex *exec, fr *frame, fn *ssa.Function, a []value) value {
		depth, width := int(asInt64(a[0])), int(asInt64(a[1]))
		var menu []string
		if k := strArg(a[2]); k != "" {
			menu = strings.Split(k, ",")
		}
		n := &jnode{kind: jLazy, lazy: &lazyState{depth: depth, width: width, keyMenu: menu}}
		ex.nondets = append(ex.nondets, nondetEntry{kind: "json", node: n})
		return &jsonBlob{node: n}
	})
	reg(rtPkg+".Choose", func(ex *exec, fr *frame, fn *ssa.Function, a []value) value {
		return ex.choose(int(asInt64(a[0])))
	})
	reg(rtPkg+".Assume", func(ex *exec, fr *frame, fn *ssa.Function, a []value) value {
		switch c := a[0].(type) {
		case bool:
			ex.assume(ex.tt.Bool(c))
		case sym:
			ex.assume(c.t)
		}
		return nil
	})
	reg(rtPkg+".Assert", func(ex *exec, fr *frame, fn *ssa.Function, a []value) value {
		ex.assertProp(a[0], strArg(a[1]), siteOf(ex, fr))
		return nil
	})
	reg(rtPkg+".Reach", func(ex *exec, fr *frame, fn *ssa.Function, a []value) value {
		ex.reach[strArg(a[0])] = true
		return nil
	})
	reg(rtPkg+".Observe", func(ex *exec, fr *frame, fn *ssa.Function, a []value) value {
		ex.observe = append(ex.observe, obsRec{strArg(a[0]), a[1]})
		return nil
	})
	reg(rtPkg+".Note", func(ex *exec, fr *frame, fn *ssa.Function, a []value) value { return nil })
	reg(rtPkg+".ExpectPanic", func(ex *exec, fr *frame, fn *ssa.Function, a []value) value {
		ex.expectPanic = true
		return nil
	})
	reg(rtPkg+".Symbolic", func(ex *exec, fr *frame, fn *ssa.Function, a []value) value { return true })
	reg(rtPkg+".RunPending", func(ex *exec, fr *frame, fn *ssa.Function, a []value) value {
		ex.runPending()
		return nil
	})
	reg(rtPkg+".Yield", func(ex *exec, fr *frame, fn *ssa.Function, a []value) value {
		ex.yieldPoint()
		return nil
	})
	reg(rtPkg+".HeldLocks", func(ex *exec, fr *frame, fn *ssa.Function, a []value) value {
		return len(ex.held)
	})
	reg(rtPkg+".HeldLockSites", func(ex *exec, fr *frame, fn *ssa.Function, a []value) value {
		var sites []string
		for _, h := range ex.held {
			sites = append(sites, h.site)
		}
		sort.Strings(sites)
		return strings.Join(sites, ",")
	})
	reg(rtPkg+".Shares", func(ex *exec, fr *frame, fn *ssa.Function, a []value) value {
		return ex.shares(a[0], a[1])
	})
	reg(rtPkg+".IsUUID", func(ex *exec, fr *frame, fn *ssa.Function, a []value) value {
		switch s := a[0].(type) {
		case string:
			return uuidRe.MatchString(s)
		case sym:
			return boolVal(ex.uuidTerm(s.t))
		}
		panic("IsUUID")
	})

	// ---------------- fmt / errors ----------------
	reg("fmt.Sprintf", func(ex *exec, fr *frame, fn *ssa.Function, a []value) value {
		args, _ := a[1].([]value)
		return ex.sprintf(strArg(a[0]), args)
	})
	reg("fmt.Sprint", func(ex *exec, fr *frame, fn *ssa.Function, a []value) value {
		args, _ := a[0].([]value)
		nat := make([]interface{}, len(args))
		for i, x := range args {
			nat[i] = ex.fmtNative(x)
		}
		return fmt.Sprint(nat...)
	})
	reg("fmt.Errorf", func(ex *exec, fr *frame, fn *ssa.Function, a []value) value {
		format := strArg(a[0])
		args, _ := a[1].([]value)
		msg := ex.sprintf(strings.ReplaceAll(format, "%w", "%v"), args)
		if idx := strings.Index(format, "%w"); idx >= 0 {
			// find which argument %w binds to
			n := 0
			for i := 0; i+1 < len(format) && i < idx; i++ {
				if format[i] == '%' {
					if format[i+1] != '%' {
						n++
					}
					i++
				}
			}
			if n < len(args) {
				if we, ok := args[n].(iface); ok && we.t != nil {
					slot := new(value)
					*slot = structure{msg, we}
					return iface{t: ex.wrapErr, v: slot}
				}
			}
		}
		return ex.newErr(msg)
	})
	for _, name := range []string{"fmt.Println", "fmt.Printf", "fmt.Print", "fmt.Fprintf", "fmt.Fprintln", "fmt.Fprint",
		"log.Printf", "log.Println", "log.Print"} {
		reg(name, func(ex *exec, fr *frame, fn *ssa.Function, a []value) value {
			if fn != nil && fn.Signature.Results().Len() == 2 {
				return tuple{0, iface{}}
			}
			return nil
		})
	}
	for _, name := range []string{"log.Fatal", "log.Fatalf", "log.Fatalln", "log.Panicf", "log.Panic"} {
		name := name
		reg(name, func(ex *exec, fr *frame, fn *ssa.Function, a []value) value {
			panic(targetPanic{iface{t: types.Typ[types.String], v: name + " called"}})
		})
	}
	reg("errors.Is", func(ex *exec, fr *frame, fn *ssa.Function, a []value) value {
		e, target := a[0].(iface), a[1].(iface)
		for depth := 0; e.t != nil && depth < 20; depth++ {
			if target.t != nil && identical(e.t, target.t) && types.Comparable(e.t) {
				c := ex.eqTerm(e.t, e.v, target.v)
				if ex.branch(c) {
					return true
				}
			}
			if _, isFake := e.t.(*fakeType); !isFake && ex.hasMethod(e.t, "Is") != nil {
				if f := ex.lookupExported(e.t, "Is"); f != nil {
					if ex.truth(ex.call(fr, 0, f, []value{e.v, target})) {
						return true
					}
				}
			}
			e = ex.unwrapErr(e)
		}
		return e.t == nil && target.t == nil
	})
	reg("errors.As", func(ex *exec, fr *frame, fn *ssa.Function, a []value) value {
		e, target := a[0].(iface), a[1].(iface)
		if target.t == nil {
			panic(targetPanic{iface{t: types.Typ[types.String], v: "errors: target cannot be nil"}})
		}
		pt, ok := target.t.Underlying().(*types.Pointer)
		if !ok {
			panic(targetPanic{iface{t: types.Typ[types.String], v: "errors: target must be a non-nil pointer"}})
		}
		slot := target.v.(*value)
		want := pt.Elem()
		for depth := 0; e.t != nil && depth < 20; depth++ {
			if _, isFake := e.t.(*fakeType); !isFake {
				if it, isI := want.Underlying().(*types.Interface); isI {
					if types.Implements(e.t, it) {
						*slot = e
						return true
					}
				} else if identical(e.t, want) {
					*slot = e.v
					return true
				}
			}
			e = ex.unwrapErr(e)
		}
		return false
	})
	reg("errors.Unwrap", func(ex *exec, fr *frame, fn *ssa.Function, a []value) value {
		return ex.unwrapErr(a[0].(iface))
	})

	// ---------------- strings / strconv / sort (concrete arguments) ----------------
	reg("strings.Contains", func(ex *exec, fr *frame, fn *ssa.Function, a []value) value {
		return strings.Contains(strArg(a[0]), strArg(a[1]))
	})
	reg("strings.HasPrefix", func(ex *exec, fr *frame, fn *ssa.Function, a []value) value {
		return strings.HasPrefix(strArg(a[0]), strArg(a[1]))
	})
	reg("strings.HasSuffix", func(ex *exec, fr *frame, fn *ssa.Function, a []value) value {
		return strings.HasSuffix(strArg(a[0]), strArg(a[1]))
	})
	reg("strings.Index", func(ex *exec, fr *frame, fn *ssa.Function, a []value) value {
		return strings.Index(strArg(a[0]), strArg(a[1]))
	})
	reg("strings.Split", func(ex *exec, fr *frame, fn *ssa.Function, a []value) value {
		return valStrings(strings.Split(strArg(a[0]), strArg(a[1])))
	})
	reg("strings.Join", func(ex *exec, fr *frame, fn *ssa.Function, a []value) value {
		parts, _ := a[0].([]value)
		anySym := isSym(a[1])
		for _, p := range parts {
			if isSym(p) {
				anySym = true
			}
		}
		if !anySym {
			return strings.Join(nativeStrings(a[0]), strArg(a[1]))
		}
		acc := ex.tt.Str("")
		for i, p := range parts {
			if i > 0 {
				acc = ex.tt.Concat(acc, ex.toTerm(a[1]))
			}
			acc = ex.tt.Concat(acc, ex.toTerm(p))
		}
		return fromTerm(acc, types.String)
	})
	reg("strings.ToLower", func(ex *exec, fr *frame, fn *ssa.Function, a []value) value {
		return strings.ToLower(strArg(a[0]))
	})
	reg("strings.ToUpper", func(ex *exec, fr *frame, fn *ssa.Function, a []value) value {
		return strings.ToUpper(strArg(a[0]))
	})
	reg("strings.Title", func(ex *exec, fr *frame, fn *ssa.Function, a []value) value {
		return strings.Title(strArg(a[0]))
	})
	reg("strings.TrimSpace", func(ex *exec, fr *frame, fn *ssa.Function, a []value) value {
		return strings.TrimSpace(strArg(a[0]))
	})
	reg("strings.TrimPrefix", func(ex *exec, fr *frame, fn *ssa.Function, a []value) value {
		return strings.TrimPrefix(strArg(a[0]), strArg(a[1]))
	})
	reg("strings.TrimSuffix", func(ex *exec, fr *frame, fn *ssa.Function, a []value) value {
		return strings.TrimSuffix(strArg(a[0]), strArg(a[1]))
	})
	reg("strings.Trim", func(ex *exec, fr *frame, fn *ssa.Function, a []value) value {
		return strings.Trim(strArg(a[0]), strArg(a[1]))
	})
	reg("strings.Replace", func(ex *exec, fr *frame, fn *ssa.Function, a []value) value {
		return strings.Replace(strArg(a[0]), strArg(a[1]), strArg(a[2]), int(asInt64(a[3])))
	})
	reg("strings.ReplaceAll", func(ex *exec, fr *frame, fn *ssa.Function, a []value) value {
		return strings.ReplaceAll(strArg(a[0]), strArg(a[1]), strArg(a[2]))
	})
	reg("strings.EqualFold", func(ex *exec, fr *frame, fn *ssa.Function, a []value) value {
		return strings.EqualFold(strArg(a[0]), strArg(a[1]))
	})
	reg("strings.Fields", func(ex *exec, fr *frame, fn *ssa.Function, a []value) value {
		return valStrings(strings.Fields(strArg(a[0])))
	})
	reg("strings.Compare", func(ex *exec, fr *frame, fn *ssa.Function, a []value) value {
		return strings.Compare(strArg(a[0]), strArg(a[1]))
	})
	reg("strconv.Itoa", func(ex *exec, fr *frame, fn *ssa.Function, a []value) value {
		return strconv.Itoa(int(asInt64(a[0])))
	})
	reg("strconv.Atoi", func(ex *exec, fr *frame, fn *ssa.Function, a []value) value {
		i, err := strconv.Atoi(strArg(a[0]))
		if err != nil {
			return tuple{0, ex.newErr(err.Error())}
		}
		return tuple{i, iface{}}
	})
	reg("strconv.Quote", func(ex *exec, fr *frame, fn *ssa.Function, a []value) value {
		return strconv.Quote(strArg(a[0]))
	})
	reg("strconv.FormatInt", func(ex *exec, fr *frame, fn *ssa.Function, a []value) value {
		return strconv.FormatInt(asInt64(a[0]), int(asInt64(a[1])))
	})
	reg("sort.Strings", func(ex *exec, fr *frame, fn *ssa.Function, a []value) value {
		s, _ := a[0].([]value)
		anySym := false
		for _, x := range s {
			if isSym(x) {
				anySym = true
			}
		}
		if !anySym {
			sort.SliceStable(s, func(i, j int) bool { return s[i].(string) < s[j].(string) })
			return nil
		}
		// insertion sort with symbolic comparisons (each comparison is a decision)
		for i := 1; i < len(s); i++ {
			for j := i; j > 0; j-- {
				if !ex.truth(ex.binop(token.LSS, types.Typ[types.String], s[j], s[j-1])) {
					break
				}
				s[j], s[j-1] = s[j-1], s[j]
			}
		}
		return nil
	})
	reg("sort.Ints", func(ex *exec, fr *frame, fn *ssa.Function, a []value) value {
		s, _ := a[0].([]value)
		sort.SliceStable(s, func(i, j int) bool { return s[i].(int) < s[j].(int) })
		return nil
	})
	sortSlice := func(ex *exec, fr *frame, fn *ssa.Function, a []value) value {
		x := a[0].(iface)
		s, _ := x.v.([]value)
		less := a[1]
		// insertion sort (stable) driven by the interpreted less function; element copies preserve aliasing of slots
		st := x.t.Underlying().(*types.Slice)
		for i := 1; i < len(s); i++ {
			for j := i; j > 0; j-- {
				if !ex.truth(ex.call(fr, 0, less, []value{j, j - 1})) {
					break
				}
				tmp := load(st.Elem(), &s[j])
				store(st.Elem(), &s[j], load(st.Elem(), &s[j-1]))
				store(st.Elem(), &s[j-1], tmp)
			}
		}
		return nil
	}
	reg("sort.Slice", sortSlice)
	reg("sort.SliceStable", sortSlice)

	// ---------------- regexp ----------------
	reg("regexp.MustCompile", func(ex *exec, fr *frame, fn *ssa.Function, a []value) value {
		slot := new(value)
		pat := strArg(a[0])
		re, ok := ex.reCache.Load(pat)
		if !ok {
			re = regexp.MustCompile(pat)
			ex.reCache.Store(pat, re)
		}
		*slot = &opaque{kind: "regexp", data: re.(*regexp.Regexp)}
		return slot
	})
	reg("(*regexp.Regexp).MatchString", func(ex *exec, fr *frame, fn *ssa.Function, a []value) value {
		re := (*a[0].(*value)).(*opaque).data.(*regexp.Regexp)
		switch s := a[1].(type) {
		case string:
			return re.MatchString(s)
		case sym:
			if strings.Contains(re.String(), "{8}-") && strings.Contains(re.String(), "{12}") {
				return boolVal(ex.uuidTerm(s.t))
			}
		}
		panic(unsupported("regexp %q on symbolic string", re.String()))
	})

	// ---------------- uuid ----------------
	newUUID := func(ex *exec) value {
		v := ex.freshVar("genuuid", SStr)
		ex.assertPC(ex.uuidTerm(v))
		for _, u := range ex.uuids {
			ex.assertPC(ex.tt.Not(ex.tt.Eq(u, v)))
		}
		ex.uuids = append(ex.uuids, v)
		ex.genUUIDs = append(ex.genUUIDs, v)
		return sym{v, types.String}
	}
	reg("github.com/google/uuid.NewString", func(ex *exec, fr *frame, fn *ssa.Function, a []value) value {
		return newUUID(ex)
	})
	reg("github.com/google/uuid.New", func(ex *exec, fr *frame, fn *ssa.Function, a []value) value {
		// a uuid.UUID is [16]byte: bytes 0..1 carry the ordinal of the generated value, whose text is symbolic
		s := newUUID(ex)
		ex.uuidByOrd = append(ex.uuidByOrd, s)
		n := len(ex.uuidByOrd)
		arr := make(array, 16)
		for i := range arr {
			arr[i] = uint8(0)
		}
		arr[0], arr[1], arr[15] = uint8(n>>8), uint8(n), uint8(0xff)
		return arr
	})
	reg("(github.com/google/uuid.UUID).String", func(ex *exec, fr *frame, fn *ssa.Function, a []value) value {
		if arr, ok := a[0].(array); ok && len(arr) == 16 {
			hi, _ := arr[0].(uint8)
			lo, _ := arr[1].(uint8)
			n := int(hi)<<8 | int(lo)
			if tag, _ := arr[15].(uint8); tag == 0xff && n >= 1 && n <= len(ex.uuidByOrd) {
				return ex.uuidByOrd[n-1]
			}
		}
		return notHandled{}
	})

	// ---------------- sync ----------------
	reg("(*sync.Mutex).Lock", func(ex *exec, fr *frame, fn *ssa.Function, a []value) value {
		ex.lockAcquire(fr, a[0].(*value), true)
		return nil
	})
	reg("(*sync.Mutex).Unlock", func(ex *exec, fr *frame, fn *ssa.Function, a []value) value {
		ex.lockRelease(fr, a[0].(*value), true)
		return nil
	})
	reg("(*sync.Mutex).TryLock", func(ex *exec, fr *frame, fn *ssa.Function, a []value) value {
		if ex.findLock(a[0].(*value)) != nil {
			return false
		}
		ex.lockAcquire(fr, a[0].(*value), true)
		return true
	})
	reg("(*sync.RWMutex).TryLock", func(ex *exec, fr *frame, fn *ssa.Function, a []value) value {
		if ex.findLock(a[0].(*value)) != nil {
			return false
		}
		ex.lockAcquire(fr, a[0].(*value), true)
		return true
	})
	reg("(*sync.RWMutex).TryRLock", func(ex *exec, fr *frame, fn *ssa.Function, a []value) value {
		if h := ex.findLock(a[0].(*value)); h != nil && h.write {
			return false
		}
		ex.lockAcquire(fr, a[0].(*value), false)
		return true
	})
	reg("(*sync.RWMutex).Lock", func(ex *exec, fr *frame, fn *ssa.Function, a []value) value {
		ex.lockAcquire(fr, a[0].(*value), true)
		return nil
	})
	reg("(*sync.RWMutex).Unlock", func(ex *exec, fr *frame, fn *ssa.Function, a []value) value {
		ex.lockRelease(fr, a[0].(*value), true)
		return nil
	})
	reg("(*sync.RWMutex).RLock", func(ex *exec, fr *frame, fn *ssa.Function, a []value) value {
		ex.lockAcquire(fr, a[0].(*value), false)
		return nil
	})
	reg("(*sync.RWMutex).RUnlock", func(ex *exec, fr *frame, fn *ssa.Function, a []value) value {
		ex.lockRelease(fr, a[0].(*value), false)
		return nil
	})
	reg("(*sync.Once).Do", func(ex *exec, fr *frame, fn *ssa.Function, a []value) value {
		p := a[0].(*value)
		if ex.onceDone == nil {
			ex.onceDone = map[*value]bool{}
		}
		if !ex.onceDone[p] {
			ex.onceDone[p] = true
			ex.call(fr, 0, a[1], nil)
		}
		return nil
	})
	reg("(*sync.WaitGroup).Add", func(ex *exec, fr *frame, fn *ssa.Function, a []value) value {
		if ex.wgCount == nil {
			ex.wgCount = map[*value]int{}
		}
		ex.wgCount[a[0].(*value)] += int(asInt64(a[1]))
		return nil
	})
	reg("(*sync.WaitGroup).Done", func(ex *exec, fr *frame, fn *ssa.Function, a []value) value {
		if ex.wgCount == nil {
			ex.wgCount = map[*value]int{}
		}
		ex.wgCount[a[0].(*value)]--
		return nil
	})
	reg("(*sync.WaitGroup).Wait", func(ex *exec, fr *frame, fn *ssa.Function, a []value) value {
		p := a[0].(*value)
		for ex.wgCount[p] > 0 {
			ex.park("WaitGroup.Wait")
		}
		return nil
	})
}

// shares reports whether two values reach a common mutable heap cell (pointer target, slice element, map).
func (ex *exec) shares(a, b value) bool {
	cells := map[interface{}]bool{}
	var walk func(v value, mark bool, depth int) bool
	walk = func(v value, mark bool, depth int) bool {
		if depth > 50 {
			return false
		}
		switch x := v.(type) {
		case iface:
			return walk(x.v, mark, depth+1)
		case *value:
			if x == nil {
				return false
			}
			if mark {
				if cells[x] {
					return false
				}
				cells[x] = true
			} else if cells[x] {
				return true
			}
			return walk(*x, mark, depth+1)
		case []value:
			full := x[:cap(x)]
			for i := range full {
				p := &full[i]
				if mark {
					cells[p] = true
				} else if cells[p] {
					return true
				}
			}
			for i := range x {
				if walk(x[i], mark, depth+1) {
					return true
				}
			}
		case *omap:
			if x == nil {
				return false
			}
			if mark {
				if cells[x] {
					return false
				}
				cells[x] = true
			} else if cells[x] {
				return true
			}
			for _, e := range x.live() {
				if walk(e.key, mark, depth+1) || walk(e.val, mark, depth+1) {
					return true
				}
			}
		case structure:
			for i := range x {
				if walk(x[i], mark, depth+1) {
					return true
				}
			}
		case array:
			for i := range x {
				if walk(x[i], mark, depth+1) {
					return true
				}
			}
		case rvalue:
			if x.addr != nil {
				return walk(x.addr, mark, depth+1)
			}
			return walk(x.v, mark, depth+1)
		}
		return false
	}
	walk(a, true, 0)
	return walk(b, false, 0)
}
