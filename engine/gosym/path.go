package gosym

// Path state, decisions, exploration driver.

import (
	"sync/atomic"
	"fmt"
	"go/types"
	"sort"
	"strings"
	"sync"
	"time"

	"golang.org/x/tools/go/ssa"
)

type decision struct {
	kind   string
	n      int
	choice int
}

// NondetRec is one value handed to the harness (for native replay).
type NondetRec struct {
	Kind string      `json:"kind"` // int, int64, bool, float64, string, uuid, choose
	Name string      `json:"name,omitempty"`
	Val  interface{} `json:"val"`
	N    int         `json:"n,omitempty"`
}

type nondetEntry struct {
	kind string
	v    *Term // nil for choose
	val  int
	n    int
	node *jnode
}

// Failure is an assertion failure or an uncaught panic on a feasible path.
type Failure struct {
	Kind    string      `json:"kind"` // assert | panic | deadlock | lockleak
	Key     string      `json:"key"`
	Msg     string      `json:"msg"`
	Site    string      `json:"site"`
	Stack   []string    `json:"stack,omitempty"`
	Path    []int       `json:"path"`
	Nondet  []NondetRec `json:"nondet"`
	Observe []string    `json:"observe,omitempty"`
	Model   string      `json:"model,omitempty"`
	Harness string      `json:"harness"`
	Sched   bool        `json:"sched,omitempty"`
}

// exec is the per-worker executor; path-specific state is reset for every path.
type exec struct {
	*Program
	cfg    *Config
	solver *Solver
	fp     *Solver // cvc5 for FP arithmetic (lazy)

	tt        *termTable
	globals   map[*ssa.Global]*value
	prefix    []int
	decisions []decision
	pcTerms   []*Term
	nsym      int
	nondets   []nondetEntry
	steps     int
	maxSteps  int
	depth     int
	alts      [][]int
	failures  []Failure
	reach     map[string]bool
	observe   []obsRec
	panicSite *panicSiteInfo
	expectPanic bool
	sawUnknown  bool
	harness   string
	uuids     []*Term
	held      []*heldLock
	rpcPeer   value
	orderSites map[string]bool

	listeners   []*listener
	dialed      map[*value]*dialedClient
	serverSides map[*value]*value
	ticks       int
	retries     int
	unknowns    int
	blobStrs    []blobStr
	structPtrs  []structPtr
	pkgInited   map[*ssa.Package]bool
	pkgInitRan  map[*ssa.Function]bool
	forceInit   bool
	notes     []string
	assumes   int
	coros       []*coro
	cur         *coro
	scheduling  bool
	mainParks   int
	goPanic     interface{}
	schedNondet bool
	ptrIDs      map[interface{}]uintptr
	lazyLog     []int
	lazyRoots   []*jnode
	genUUIDs    []*Term
	onceDone    map[*value]bool
	wgCount     map[*value]int
	uuidAxioms  map[int]bool
	uuidTerms   []*Term
	uuidSubst   map[string]string
	facts       map[int]bool // terms whose truth value the path condition fixes syntactically
	gobBufs     map[*value][]iface
	gobKeys     []gobKey
	uuidByOrd   []value
	lastNow     *Term
	rpcPeers    map[*value]value
	rpcCalls    int
	sleeps      int
	parent      map[int]int      // union-find over variable ids
	groups      map[int][]*Term  // path-condition terms per connected component
	varCache    map[int][]int
	fpUsed      bool
	realStrings bool         // this path needs the real string theory (concatenation / ordering reached the solver)

	cover map[*ssa.Function]int // per worker, cumulative
	stats workerStats
}

type workerStats struct {
	paths, completed, aborted, incomplete, assumePruned, infeasible int
	feasQ, assertQ                                                int
	unsupported                                                   map[string]int
	incompleteWhy                                                 map[string]int
	instrs                                                        int64
}

// Config controls one exploration.
type Config struct {
	Workers    int
	MaxSteps   int
	MaxPaths   int
	Budget     time.Duration
	SolverMs   int
	Seed       int64
	Samples    int
	Verbose    bool
	OrderSites []string
	// RecursiveRLock: report a read lock taken by a thread that already holds the same lock for reading
	RecursiveRLock bool
	Tier       string
}

// PathSample is a completed path written into evidence.
type PathSample struct {
	Path    []int       `json:"path"`
	Nondet  []NondetRec `json:"nondet,omitempty"`
	PC      []string    `json:"path_condition,omitempty"`
	Observe []string    `json:"observe,omitempty"`
	Sched   bool        `json:"sched,omitempty"`
}

// Report is the result of exploring one harness.
type Report struct {
	Harness      string
	Paths        int
	Completed    int
	Aborted      int
	Incomplete   int
	AssumePruned int
	Infeasible   int
	Decisions    int
	FeasQ        int
	AssertQ      int
	Solver       SolverStats
	FPSolver     SolverStats
	Unsupported  map[string]int
	IncompleteBy map[string]int
	Reach        map[string]int
	Failures     map[string]*Failure // by key (first per key)
	FailCount    map[string]int
	// FailAlts: further counterexamples with the same key, from other paths (tried when the first does not replay)
	FailAlts map[string][]*Failure
	Samples      []PathSample
	Cover        map[string]int
	Wall         time.Duration
	BudgetHit    bool
	Instrs       int64
}

func (ex *exec) resetPath(prefix []int) {
	ex.tt = newTermTable()
	ex.globals = make(map[*ssa.Global]*value)
	ex.prefix = prefix
	ex.decisions = ex.decisions[:0]
	ex.pcTerms = ex.pcTerms[:0]
	ex.nsym = 0
	ex.nondets = ex.nondets[:0]
	ex.steps = 0
	ex.depth = 0
	ex.alts = nil
	ex.failures = nil
	ex.reach = make(map[string]bool)
	ex.observe = nil
	ex.panicSite = nil
	ex.expectPanic = false
	ex.sawUnknown = false
	ex.uuids = nil
	ex.held = nil
	ex.rpcPeer = nil
	ex.notes = nil
	ex.assumes = 0
	ex.killCoros()
	ex.cur = nil
	ex.scheduling = false
	ex.mainParks = 0
	ex.goPanic = nil
	ex.schedNondet = false
	ex.ptrIDs = nil
	ex.structPtrs = nil
	ex.pkgInited = nil
	ex.pkgInitRan = nil
	ex.forceInit = false
	ex.lazyLog = nil
	ex.lazyRoots = nil
	ex.genUUIDs = nil
	ex.onceDone = nil
	ex.wgCount = nil
	ex.uuidAxioms = nil
	ex.uuidTerms = nil
	ex.uuidSubst = nil
	ex.facts = map[int]bool{}
	ex.parent = map[int]int{}
	ex.groups = map[int][]*Term{}
	ex.varCache = map[int][]int{}
	ex.fpUsed = false
	ex.gobBufs = nil
	ex.gobKeys = nil
	ex.uuidByOrd = nil
	ex.lastNow = nil
	ex.rpcPeers = nil
	ex.rpcCalls = 0
	ex.unknowns = 0
	ex.resetNet()
	ex.sleeps = 0
	ex.solver.Reset()
	ex.solver.SetEUFStrings(!ex.realStrings)
}

// assertPC adds c to the path condition. Nothing is sent to a solver: queries carry the relevant slice.
func (ex *exec) assertPC(c *Term) {
	if c.isConst() {
		return
	}
	ex.pcTerms = append(ex.pcTerms, c)
	ex.learn(c, true)
	vs := ex.varsOf(c)
	if len(vs) == 0 {
		return
	}
	root := ex.find(vs[0])
	for _, v := range vs[1:] {
		r := ex.find(v)
		if r != root {
			// merge the smaller group into the larger
			if len(ex.groups[r]) > len(ex.groups[root]) {
				r, root = root, r
			}
			ex.parent[r] = root
			ex.groups[root] = append(ex.groups[root], ex.groups[r]...)
			delete(ex.groups, r)
		}
	}
	ex.groups[root] = append(ex.groups[root], c)
}

func (ex *exec) find(v int) int {
	p, ok := ex.parent[v]
	if !ok || p == v {
		if !ok {
			ex.parent[v] = v
		}
		return v
	}
	r := ex.find(p)
	ex.parent[v] = r
	return r
}

// varsOf returns the ids of the variables occurring in t (memoised per path).
func (ex *exec) varsOf(t *Term) []int {
	if vs, ok := ex.varCache[t.id]; ok {
		return vs
	}
	var vs []int
	switch t.op {
	case "const":
	case "var":
		vs = []int{t.id}
	default:
		seen := map[int]bool{}
		for _, a := range t.args {
			for _, v := range ex.varsOf(a) {
				if !seen[v] {
					seen[v] = true
					vs = append(vs, v)
				}
			}
		}
	}
	ex.varCache[t.id] = vs
	return vs
}

// slice returns the path-condition terms that share variables (transitively) with q.
func (ex *exec) pcSlice(q *Term) []*Term {
	var out []*Term
	seen := map[int]bool{}
	for _, v := range ex.varsOf(q) {
		r := ex.find(v)
		if !seen[r] {
			seen[r] = true
			out = append(out, ex.groups[r]...)
		}
	}
	return out
}

// check decides pc && extra. Only the constraints that share variables with extra are sent (the rest of the
// path condition is satisfiable on its own and independent); a model request, or extra == nil, sends all of it.
// Queries containing FP arithmetic go to cvc5, everything else to z3.
func (ex *exec) check(extra *Term, wantModel bool) (Result, map[string]interface{}) {
	var asserts []*Term
	if extra != nil && !wantModel {
		asserts = append(ex.pcSlice(extra), extra)
	} else {
		asserts = append(asserts, ex.pcTerms...)
		if extra != nil {
			asserts = append(asserts, extra)
		}
	}
	useFP := false
	if ex.fp != nil {
		seen := map[int]bool{}
		for _, t := range asserts {
			if hasFPArith(t, seen) {
				useFP = true
				break
			}
		}
	}
	if useFP {
		if !ex.fpUsed {
			ex.fpUsed = true
			ex.fp.Reset()
		}
		return ex.fp.Check(asserts, ex.modelTerms(wantModel), wantModel)
	}
	if hopelessPaths.Load() > 8 {
		// many paths of this run were already given up on solver time-outs: stop paying 10 s per hopeless query
		ex.solver.SetTimeout(1000)
	}
	r, m := ex.solver.Check(asserts, ex.modelTerms(wantModel), wantModel)
	if r == Unknown {
		ex.unknowns++
		if ex.unknowns > 3 {
			hopelessPaths.Add(1)
			// every further query on this path is likely to time out as well (typically: byte-level reasoning
			// about symbolic strings); give the path up rather than spend the budget on it
			panic(engineAbort{"incomplete", "solver answered unknown more than 3 times on one path"})
		}
	}
	if ex.solver.LastKilled {
		hopelessPaths.Add(1)
		// the solver ignored its own time limit and was killed: queries on this path are hopeless, give the path up
		panic(engineAbort{"incomplete", "solver did not answer within the time limit (killed)"})
	}
	return r, m
}

// hopelessPaths counts, per exploration, the paths given up because the solver kept timing out.
var hopelessPaths atomic.Int64

// decide makes an n-way decision; opts[i] is the condition under which option i applies (exhaustive).
func (ex *exec) decide(kind string, opts []*Term) int {
	idx := len(ex.decisions)
	if idx < len(ex.prefix) {
		c := ex.prefix[idx]
		if c >= len(opts) {
			panic(internalError{fmt.Sprintf("replay divergence at decision %d (%s): choice %d of %d", idx, kind, c, len(opts))})
		}
		ex.decisions = append(ex.decisions, decision{kind, len(opts), c})
		ex.assertPC(opts[c])
		return c
	}
	var feasible []int
	for i, o := range opts {
		if v, known := ex.facts[o.id]; known && !o.isConst() {
			if v {
				feasible = []int{i}
				break
			}
			continue
		}
		if o.isConst() {
			if o.cv.(bool) {
				feasible = append(feasible, i)
			}
			continue
		}
		if i == len(opts)-1 && len(feasible) == 0 && !ex.sawUnknown {
			// options are exhaustive and the path condition is satisfiable
			feasible = append(feasible, i)
			continue
		}
		ex.stats.feasQ++
		r, _ := ex.check(o, false)
		switch r {
		case Sat:
			feasible = append(feasible, i)
		case Unknown:
			ex.sawUnknown = true
			feasible = append(feasible, i)
		}
		if kind == "concint" && len(feasible) > 24 {
			// a symbolic size or index with dozens of possible values (typically the length of a symbolic
			// string being copied byte by byte): enumerating them is not a bound anyone stated
			panic(engineAbort{"incomplete", "a symbolic size/index has more than 24 feasible values (byte-level use of symbolic data)"})
		}
	}
	if len(feasible) == 0 {
		panic(engineAbort{"infeasible", "no feasible option at " + kind})
	}
	base := make([]int, idx, idx+1)
	for i, d := range ex.decisions {
		base[i] = d.choice
	}
	for _, alt := range feasible[1:] {
		p := make([]int, idx+1)
		copy(p, base)
		p[idx] = alt
		ex.alts = append(ex.alts, p)
	}
	c := feasible[0]
	ex.decisions = append(ex.decisions, decision{kind, len(opts), c})
	ex.assertPC(opts[c])
	return c
}

// learn records the truth value of c (and of its conjuncts) implied by asserting it.
func (ex *exec) learn(c *Term, val bool) {
	switch {
	case c.op == "not":
		ex.learn(c.args[0], !val)
		return
	case c.op == "and" && val:
		ex.learn(c.args[0], true)
		ex.learn(c.args[1], true)
	case c.op == "or" && !val:
		ex.learn(c.args[0], false)
		ex.learn(c.args[1], false)
	}
	ex.facts[c.id] = val
}

// branch decides a symbolic condition.
func (ex *exec) branch(c *Term) bool {
	if c.isConst() {
		return c.cv.(bool)
	}
	return ex.decide("br", []*Term{c, ex.tt.Not(c)}) == 0
}

// choose is an unconstrained n-way shape decision by the harness.
func (ex *exec) choose(n int) int {
	if n <= 0 {
		panic(internalError{"Choose(n) with n <= 0"})
	}
	opts := make([]*Term, n)
	for i := range opts {
		opts[i] = ex.tt.Bool(true)
	}
	c := ex.decide("choose", opts)
	ex.nondets = append(ex.nondets, nondetEntry{kind: "choose", val: c, n: n})
	return c
}

func (ex *exec) freshVar(kind string, s Sort) *Term {
	ex.nsym++
	v := ex.tt.Var(fmt.Sprintf("n%d_%s", ex.nsym, kind), s)
	return v
}

func (ex *exec) nondet(kind string, s Sort, k types.BasicKind) value {
	v := ex.freshVar(kind, s)
	ex.nondets = append(ex.nondets, nondetEntry{kind: kind, v: v})
	return sym{v, k}
}

func (ex *exec) assume(c *Term) {
	if c.isConst() {
		if !c.cv.(bool) {
			panic(engineAbort{"assume", "assumption false"})
		}
		return
	}
	ex.stats.feasQ++
	r, _ := ex.check(c, false)
	if r == Unsat {
		panic(engineAbort{"assume", "assumption infeasible"})
	}
	if r == Unknown {
		ex.sawUnknown = true
	}
	ex.assertPC(c)
}

// assertProp checks a property; on a feasible violation records a failure and continues under cond.
func (ex *exec) assertProp(cond value, msg string, site string) {
	var c *Term
	switch v := cond.(type) {
	case bool:
		c = ex.tt.Bool(v)
	case sym:
		c = v.t
	}
	if c.isConst() {
		if !c.cv.(bool) {
			ex.stats.assertQ++
			r, model := ex.check(nil, true)
			if r == Sat {
				ex.recordFailure("assert", "assert:"+msg, msg, site, nil, model)
			} else if r == Unknown {
				ex.noteIncomplete("assertion query unknown")
			}
			panic(engineAbort{"done", "assertion failed"})
		}
		return
	}
	ex.stats.assertQ++
	r, model := ex.check(ex.tt.Not(c), true)
	switch r {
	case Sat:
		ex.recordFailure("assert", "assert:"+msg, msg, site, nil, model)
		// continue on the side where it holds, if feasible
		r2, _ := ex.check(c, false)
		if r2 == Unsat {
			panic(engineAbort{"done", "assertion always fails"})
		}
		ex.assertPC(c)
	case Unknown:
		ex.noteIncomplete("assertion query unknown")
		ex.assertPC(c)
	case Unsat:
		// holds on this path
	}
}

func (ex *exec) noteIncomplete(why string) {
	ex.notes = append(ex.notes, why)
}

func (ex *exec) nondetRecs(model map[string]interface{}) []NondetRec {
	recs := make([]NondetRec, 0, len(ex.nondets))
	for _, nd := range ex.nondets {
		if nd.kind == "choose" {
			recs = append(recs, NondetRec{Kind: "choose", Val: nd.val, N: nd.n})
			continue
		}
		if nd.kind == "json" {
			if model == nil {
				model = map[string]interface{}{}
			}
			recs = append(recs, NondetRec{Kind: "json", Val: ex.concretizeJSON(nd.node, model)})
			continue
		}
		var val interface{}
		if model != nil {
			val = model[nd.v.name]
		}
		switch nd.kind {
		case "int", "int64":
			u, _ := val.(uint64)
			val = int64(u)
		case "bool":
			b, _ := val.(bool)
			val = b
		case "float64":
			f, _ := val.(float64)
			val = fmt.Sprintf("%x", floatBits(f))
		case "string", "uuid":
			s, _ := val.(string)
			if model != nil {
				s = ex.replayString(nd.v, s, model)
			}
			val = s
		}
		recs = append(recs, NondetRec{Kind: nd.kind, Name: nd.v.name, Val: val})
	}
	return recs
}

func (ex *exec) pathChoices() []int {
	p := make([]int, len(ex.decisions))
	for i, d := range ex.decisions {
		p[i] = d.choice
	}
	return p
}

func (ex *exec) recordFailure(kind, key, msg, site string, stack []string, model map[string]interface{}) {
	f := Failure{Kind: kind, Key: key, Msg: msg, Site: site, Stack: stack, Path: ex.pathChoices(),
		Nondet: ex.nondetRecs(model), Observe: ex.renderObserve(model), Harness: ex.harness, Sched: ex.schedNondet}
	var sb strings.Builder
	names := make([]string, 0, len(model))
	for k := range model {
		names = append(names, k)
	}
	sort.Strings(names)
	for _, k := range names {
		fmt.Fprintf(&sb, "%s=%v ", k, model[k])
	}
	f.Model = sb.String()
	ex.failures = append(ex.failures, f)
}

// pathOutcome is what one execution returns to the driver.
type pathOutcome struct {
	status   string // ok | unsupported | incomplete | assume | infeasible | internal
	reason   string
	failures []Failure
	alts     [][]int
	reach    map[string]bool
	sample   *PathSample
	ndec     int
}

// runPath executes the harness once following prefix; a path on which string concatenation or ordering reaches
// the solver is re-executed with the real string theory instead of the equality/length/isuuid abstraction.
func (ex *exec) runPath(entry *ssa.Function, prefix []int, wantSample bool) pathOutcome {
	ex.realStrings = false
	out := ex.runPath1(entry, prefix, wantSample)
	if out.status == "internal" && strings.HasPrefix(out.reason, "realstrings") {
		ex.realStrings = true
		ex.stats.paths--
		out = ex.runPath1(entry, prefix, wantSample)
	}
	return out
}

func (ex *exec) runPath1(entry *ssa.Function, prefix []int, wantSample bool) (out pathOutcome) {
	ex.resetPath(prefix)
	ex.stats.paths++
	defer func() {
		ex.stats.instrs += int64(ex.steps)
		func() {
			defer func() { recover() }()
			ex.killCoros()
		}()
		out.failures = ex.failures
		out.alts = ex.alts
		out.reach = ex.reach
		out.ndec = len(ex.decisions)
		if r := recover(); r != nil {
			switch p := r.(type) {
			case engineAbort:
				switch p.kind {
				case "done":
					out.status = "ok"
				case "unsupported", "incomplete", "assume", "infeasible":
					out.status, out.reason = p.kind, p.reason
				case "blocked":
					out.status, out.reason = "incomplete", "main thread blocked: "+p.reason
				default:
					out.status, out.reason = "internal", p.kind+": "+p.reason
				}
			case internalError:
				out.status, out.reason = "internal", p.msg
			default:
				// uncaught target panic
				out.status = "ok"
				ex.uncaughtPanic(r)
				out.failures = ex.failures
			}
		} else {
			out.status = "ok"
		}
		if out.status == "ok" && len(ex.notes) > 0 {
			out.status, out.reason = "incomplete", ex.notes[0]
		}
		if out.status == "ok" && wantSample && len(ex.failures) == 0 {
			s := &PathSample{Path: ex.pathChoices(), Sched: ex.schedNondet}
			if len(ex.tt.vars) > 0 {
				r, model := ex.check(nil, true)
				if r == Sat {
					s.Nondet = ex.nondetRecs(model)
					s.Observe = ex.renderObserve(model)
				} else {
					s = nil
				}
			} else {
				s.Nondet = ex.nondetRecs(nil)
				s.Observe = ex.renderObserve(nil)
			}
			if s != nil {
			for i, t := range ex.pcTerms {
				if i >= 12 {
					s.PC = append(s.PC, fmt.Sprintf("… %d more", len(ex.pcTerms)-i))
					break
				}
				s.PC = append(s.PC, t.String())
			}
			}
			out.sample = s
		}
	}()
	ex.initPackages()
	ex.callSSA(nil, 0, entry, nil, nil)
	ex.runPending()
	if len(ex.held) > 0 && ex.cfg != nil {
		// locks still held when the harness returns are reported by the harness itself (HeldLocks); nothing here.
	}
	return
}

func (ex *exec) uncaughtPanic(r interface{}) {
	info := ex.panicSite
	if info == nil {
		info = &panicSiteInfo{msg: fmt.Sprint(r)}
	}
	if ex.expectPanic {
		return
	}
	ex.stats.assertQ++
	res, model := ex.check(nil, true)
	if res == Unsat {
		return
	}
	if res == Unknown {
		ex.noteIncomplete("panic feasibility unknown")
		return
	}
	fn := info.fn
	if fn == "" {
		fn = info.inner
	}
	key := "panic:" + strings.TrimPrefix(strings.ReplaceAll(fn, ModulePath+"/", ""), "*") + ":" + panicClass(info.msg) + ":" + info.src
	ex.recordFailure("panic", key, info.msg, info.pos, info.stack, model)
}

// sanitizeMsg removes input-dependent numbers from a panic message so that keys identify site and class.
func sanitizeMsg(s string) string {
	var sb strings.Builder
	inNum := false
	for _, r := range s {
		if r >= '0' && r <= '9' {
			if !inNum {
				sb.WriteByte('N')
				inNum = true
			}
			continue
		}
		inNum = false
		sb.WriteRune(r)
	}
	out := sb.String()
	if len(out) > 160 {
		out = out[:160]
	}
	return out
}

func (ex *exec) initPackages() {
	for _, pkg := range ex.modPkgs {
		if init := pkg.Func("init"); init != nil {
			// each package's init is guarded by its own init$guard, so calling all in any order is safe
			ex.callSSA(nil, 0, init, nil, nil)
		}
	}
}

// ---------------------------------------------------------------------
// driver

type workQueue struct {
	mu      sync.Mutex
	cond    *sync.Cond
	items   [][]int
	active  int
	closed  bool
	pushed  int
}

func newWorkQueue() *workQueue {
	q := &workQueue{}
	q.cond = sync.NewCond(&q.mu)
	return q
}

func (q *workQueue) push(ps ...[]int) {
	q.mu.Lock()
	q.items = append(q.items, ps...)
	q.pushed += len(ps)
	q.mu.Unlock()
	q.cond.Broadcast()
}

// pop returns the next prefix (LIFO) or nil when exploration is finished.
func (q *workQueue) pop() ([]int, bool) {
	q.mu.Lock()
	defer q.mu.Unlock()
	for {
		if q.closed {
			return nil, false
		}
		if n := len(q.items); n > 0 {
			p := q.items[n-1]
			q.items = q.items[:n-1]
			q.active++
			return p, true
		}
		if q.active == 0 {
			q.closed = true
			q.cond.Broadcast()
			return nil, false
		}
		q.cond.Wait()
	}
}

func (q *workQueue) done() {
	q.mu.Lock()
	q.active--
	q.mu.Unlock()
	q.cond.Broadcast()
}

func (q *workQueue) stop() {
	q.mu.Lock()
	q.closed = true
	q.mu.Unlock()
	q.cond.Broadcast()
}

// Explore runs the harness over all paths within the configured bounds.
func (p *Program) Explore(entry *ssa.Function, cfg *Config) *Report {
	hopelessPaths.Store(0)
	start := time.Now()
	rep := &Report{Harness: entry.String(), Unsupported: map[string]int{}, IncompleteBy: map[string]int{},
		Reach: map[string]int{}, Failures: map[string]*Failure{}, FailAlts: map[string][]*Failure{}, FailCount: map[string]int{}, Cover: map[string]int{}}
	q := newWorkQueue()
	q.push([]int{})
	var mu sync.Mutex
	var wg sync.WaitGroup
	nw := cfg.Workers
	if nw <= 0 {
		nw = 1
	}
	deadline := time.Time{}
	if cfg.Budget > 0 {
		deadline = start.Add(cfg.Budget)
	}
	for w := 0; w < nw; w++ {
		wg.Add(1)
		go func(w int) {
			defer wg.Done()
			s, err := NewSolver("z3", cfg.SolverMs)
			if err != nil {
				panic(err)
			}
			defer s.Close()
			ex := &exec{Program: p, cfg: cfg, solver: s, maxSteps: cfg.MaxSteps, cover: map[*ssa.Function]int{}, harness: entry.String()}
			ex.stats.unsupported = map[string]int{}
			ex.stats.incompleteWhy = map[string]int{}
			ex.orderSites = map[string]bool{}
			for _, s := range cfg.OrderSites {
				ex.orderSites[s] = true
			}
			if fp, err := NewSolver("cvc5", cfg.SolverMs); err == nil {
				ex.fp = fp
				defer fp.Close()
			}
			for {
				prefix, ok := q.pop()
				if !ok {
					break
				}
				mu.Lock()
				wantSample := len(rep.Samples) < cfg.Samples
				over := (cfg.MaxPaths > 0 && rep.Paths >= cfg.MaxPaths) || (!deadline.IsZero() && time.Now().After(deadline))
				mu.Unlock()
				if over {
					mu.Lock()
					rep.BudgetHit = true
					mu.Unlock()
					q.done()
					q.stop()
					break
				}
				out := ex.runPath(entry, prefix, wantSample)
				q.push(out.alts...)
				mu.Lock()
				rep.Paths++
				rep.Decisions += out.ndec
				switch out.status {
				case "ok":
					rep.Completed++
				case "unsupported":
					rep.Aborted++
					rep.Unsupported[out.reason]++
				case "incomplete":
					rep.Incomplete++
					rep.IncompleteBy[out.reason]++
				case "assume":
					rep.AssumePruned++
				case "infeasible":
					rep.Infeasible++
				default:
					rep.Aborted++
					rep.Unsupported["INTERNAL: "+out.reason]++
				}
				for l := range out.reach {
					rep.Reach[l]++
				}
				for i := range out.failures {
					f := out.failures[i]
					rep.FailCount[f.Key]++
					if _, ok := rep.Failures[f.Key]; ok && len(rep.FailAlts[f.Key]) < 5 {
						g := f
						rep.FailAlts[f.Key] = append(rep.FailAlts[f.Key], &g)
					}
					if _, ok := rep.Failures[f.Key]; !ok {
						rep.Failures[f.Key] = &f
					}
				}
				if out.sample != nil && len(rep.Samples) < cfg.Samples {
					rep.Samples = append(rep.Samples, *out.sample)
				}
				mu.Unlock()
				q.done()
			}
			mu.Lock()
			for fn, n := range ex.cover {
				rep.Cover[fn.String()] += n
			}
			rep.FeasQ += ex.stats.feasQ
			rep.AssertQ += ex.stats.assertQ
			rep.Instrs += ex.stats.instrs
			addStats(&rep.Solver, &ex.solver.Stats)
			if ex.fp != nil {
				addStats(&rep.FPSolver, &ex.fp.Stats)
			}
			mu.Unlock()
		}(w)
	}
	wg.Wait()
	rep.Wall = time.Since(start)
	return rep
}

func addStats(a, b *SolverStats) {
	a.Queries += b.Queries
	a.Sat += b.Sat
	a.Unsat += b.Unsat
	a.Unknown += b.Unknown
	a.Errors += b.Errors
	a.Time += b.Time
	a.Restarts += b.Restarts
}


type obsRec struct {
	tag string
	v   value
}

func (ex *exec) modelTerms(want bool) []*Term {
	if !want {
		return nil
	}
	ts := append([]*Term(nil), ex.tt.vars...)
	ts = append(ts, ex.uuidTerms...)
	for _, o := range ex.observe {
		if s, ok := o.v.(sym); ok && s.t.op != "var" {
			ts = append(ts, s.t)
		}
	}
	return ts
}

// renderObserve prints observations as the native side does (fmt %v of scalars).
func (ex *exec) renderObserve(model map[string]interface{}) []string {
	out := make([]string, 0, len(ex.observe))
	for _, o := range ex.observe {
		v := o.v
		if i, ok := v.(iface); ok {
			v = i.v
		}
		if s, ok := v.(sym); ok {
			var mv interface{}
			if model != nil {
				mv = model[refSMT(s.t)]
			}
			switch x := mv.(type) {
			case uint64:
				if signedKind(s.k) {
					out = append(out, fmt.Sprintf("%s=%d", o.tag, signExtend(x, s.t.sort.bits())))
				} else {
					out = append(out, fmt.Sprintf("%s=%d", o.tag, x))
				}
			case nil:
				out = append(out, o.tag+"=?")
			default:
				out = append(out, fmt.Sprintf("%s=%v", o.tag, x))
			}
			continue
		}
		switch x := v.(type) {
		case bool, int, int8, int16, int32, int64, uint, uint8, uint16, uint32, uint64, float64, string:
			out = append(out, fmt.Sprintf("%s=%v", o.tag, x))
		default:
			out = append(out, o.tag+"="+toString(v))
		}
	}
	return out
}
