package gosym

import (
	"fmt"
	"go/types"
	"os"
	"path/filepath"
	"strings"

	"golang.org/x/tools/go/packages"
	"golang.org/x/tools/go/ssa"
	"golang.org/x/tools/go/ssa/ssautil"
)

const ModulePath = "github.com/ovn-org/libovsdb"

// interpreted foreign packages (pure Go, no unsafe on the used paths)
var interpPkgList = []string{"errors", "sort", "strings", "strconv", "bytes", "unicode", "unicode/utf8", "math", "math/bits",
	"slices", "maps", "cmp", "container/list", "internal/bytealg", "internal/stringslite", "internal/itoa", "net/url"}

// packages whose bodies must be built although only some functions are interpreted (methods reached through wrappers)
var buildPkgList = []string{"fmt", "runtime", "context", "encoding/json", "io", "time"}

// LoadOptions describes what to load.
type LoadOptions struct {
	Repo       string
	HarnessDir string   // mirrors the repo layout; every file is overlaid at the same relative path
	Patterns   []string // package patterns relative to Repo (default: packages containing overlays)
}

// Load type-checks /repo's current tree with the overlays and builds SSA.
func Load(opt LoadOptions) (*Program, error) {
	overlay := map[string][]byte{}
	pkgDirs := map[string]bool{}
	if opt.HarnessDir != "" {
		err := filepath.Walk(opt.HarnessDir, func(path string, info os.FileInfo, err error) error {
			if err != nil {
				return err
			}
			if info.IsDir() || !strings.HasSuffix(path, ".go") {
				return nil
			}
			rel, _ := filepath.Rel(opt.HarnessDir, path)
			data, err := os.ReadFile(path)
			if err != nil {
				return err
			}
			overlay[filepath.Join(opt.Repo, rel)] = data
			pkgDirs["./"+filepath.Dir(rel)] = true
			return nil
		})
		if err != nil {
			return nil, err
		}
	}
	patterns := opt.Patterns
	if len(patterns) == 0 {
		for d := range pkgDirs {
			patterns = append(patterns, d)
		}
	}
	cfg := &packages.Config{
		Mode: packages.NeedName | packages.NeedFiles | packages.NeedCompiledGoFiles | packages.NeedImports | packages.NeedDeps |
			packages.NeedTypes | packages.NeedSyntax | packages.NeedTypesInfo | packages.NeedTypesSizes | packages.NeedModule,
		Dir:     opt.Repo,
		Overlay: overlay,
		Env:     append(os.Environ(), "GOPROXY=off", "GOSUMDB=off", "GOTOOLCHAIN=local", "GOFLAGS=-mod=readonly"),
	}
	initial, err := packages.Load(cfg, patterns...)
	if err != nil {
		return nil, err
	}
	var errs []string
	packages.Visit(initial, nil, func(p *packages.Package) {
		for _, e := range p.Errors {
			errs = append(errs, e.Error())
		}
	})
	if len(errs) > 0 {
		if len(errs) > 12 {
			errs = errs[:12]
		}
		return nil, &BuildError{Msgs: errs}
	}
	prog, _ := ssautil.AllPackages(initial, ssa.InstantiateGenerics|ssa.SanityCheckFunctions&0)
	p := &Program{prog: prog, modPrefix: ModulePath, interpPkgs: map[string]bool{}, intrinsics: allIntrinsics, fakes: map[string]*fakeType{}}
	for _, ip := range interpPkgList {
		p.interpPkgs[ip] = true
	}
	build := map[string]bool{}
	for _, b := range buildPkgList {
		build[b] = true
	}
	for _, pkg := range prog.AllPackages() {
		path := pkg.Pkg.Path()
		if strings.HasPrefix(path, ModulePath) {
			pkg.Build()
			p.modPkgs = append(p.modPkgs, pkg)
		} else if p.interpPkgs[path] || build[path] {
			pkg.Build()
		}
	}
	p.sizes = types.SizesFor("gc", "amd64")
	rt := prog.ImportedPackage("runtime")
	if rt == nil {
		return nil, fmt.Errorf("runtime package not loaded")
	}
	p.rtErrStr = rt.Type("errorString").Object().Type()
	if ep := prog.ImportedPackage("errors"); ep != nil {
		p.errorsStr = types.NewPointer(ep.Type("errorString").Object().Type())
	}
	if fp := prog.ImportedPackage("fmt"); fp != nil {
		p.wrapErr = types.NewPointer(fp.Type("wrapError").Object().Type())
	}
	p.anyType = types.NewInterfaceType(nil, nil).Complete()
	p.errorIface = types.Universe.Lookup("error").Type()
	p.byteSlice = types.NewSlice(types.Typ[types.Uint8])
	for _, name := range []string{"reflect.rtype"} {
		p.fakes[name] = &fakeType{name: name}
	}
	registerFakes(p)
	p.lazyT = p.fakes["lazyjson"]
	return p, nil
}

// BuildError means /repo (with overlays) does not type-check.
type BuildError struct{ Msgs []string }

func (e *BuildError) Error() string { return "build failed:\n  " + strings.Join(e.Msgs, "\n  ") }

// Func finds a package-level function by "import/path.Name" (the module prefix may be omitted).
func (p *Program) Func(name string) *ssa.Function {
	i := strings.LastIndex(name, ".")
	if i < 0 {
		return nil
	}
	pkgPath, fn := name[:i], name[i+1:]
	if !strings.HasPrefix(pkgPath, ModulePath) {
		pkgPath = ModulePath + "/" + pkgPath
	}
	pkg := p.prog.ImportedPackage(pkgPath)
	if pkg == nil {
		for _, q := range p.prog.AllPackages() {
			if q.Pkg.Path() == pkgPath {
				pkg = q
			}
		}
	}
	if pkg == nil {
		return nil
	}
	return pkg.Func(fn)
}

// CountInstrs returns the number of SSA instructions of a function.
func CountInstrs(fn *ssa.Function) int {
	n := 0
	for _, b := range fn.Blocks {
		n += len(b.Instrs)
	}
	return n
}

// FuncByString resolves names as printed by ssa.Function.String for coverage reports.
func (p *Program) InstrCounts(names map[string]int) map[string]int {
	out := map[string]int{}
	for _, pkg := range p.modPkgs {
		for _, m := range pkg.Members {
			if f, ok := m.(*ssa.Function); ok {
				if _, ok := names[f.String()]; ok {
					out[f.String()] = CountInstrs(f)
				}
			}
		}
	}
	return out
}
