package gosym

// Native replay: the harness entry is compiled with the real toolchain (go test -c -overlay) against /repo's
// working tree and run with the nondeterministic values of one path.

import (
	"bytes"
	"context"
	"encoding/json"
	"fmt"
	"os"
	osexec "os/exec"
	"path/filepath"
	"sort"
	"strings"
	"sync"
	"time"
)

type Replayer struct {
	Repo       string
	HarnessDir string
	Scratch    string
	Entries    []string // every harness entry that may be replayed ("pkg/path.Func")
	// RWInstrument: build the package under test with sync.RWMutex replaced by verifrt.RWMutex, which reports a
	// read lock taken by a goroutine that already holds it (native confirmation of "recursive read lock")
	RWInstrument bool

	mu    sync.Mutex
	built map[string]string // package dir (relative) -> test binary
	berr  map[string]error
}

// ReplayFile is what a violation carries.
type ReplayFile struct {
	Property string      `json:"property"`
	Harness  string      `json:"harness"`
	Tier     string      `json:"tier"`
	Key      string      `json:"finding_key"`
	Kind     string      `json:"kind"`
	Msg      string      `json:"msg"`
	Site     string      `json:"site"`
	Stack    []string    `json:"stack,omitempty"`
	Path     []int       `json:"decisions"`
	Nondet   []NondetRec `json:"nondet"`
	Observe  []string    `json:"expect_observe,omitempty"`
	Model    string      `json:"model,omitempty"`
	Note     string      `json:"note,omitempty"`
}

// NativeResult is the outcome of one native run.
type NativeResult struct {
	Failed   bool
	Detail   string
	Observed []string
	Output   string
	Err      error
}

func splitEntry(entry string) (pkgRel, fn string) {
	e := strings.TrimPrefix(entry, ModulePath+"/")
	i := strings.LastIndex(e, ".")
	return e[:i], e[i+1:]
}

func (r *Replayer) build(pkgRel string) (string, error) {
	r.mu.Lock()
	defer r.mu.Unlock()
	if r.built == nil {
		r.built = map[string]string{}
		r.berr = map[string]error{}
	}
	bkey := pkgRel
	if r.RWInstrument {
		bkey += "#rw"
	}
	if b, ok := r.built[bkey]; ok {
		return b, r.berr[bkey]
	}
	if err := os.MkdirAll(r.Scratch, 0o755); err != nil {
		return "", err
	}
	// collect entries of this package
	var fns []string
	for _, e := range r.Entries {
		p, f := splitEntry(e)
		if p == pkgRel {
			fns = append(fns, f)
		}
	}
	sort.Strings(fns)
	pkgName := ""
	// package name from any overlay file in that dir
	files, _ := filepath.Glob(filepath.Join(r.HarnessDir, pkgRel, "*.go"))
	for _, f := range files {
		data, _ := os.ReadFile(f)
		for _, line := range strings.Split(string(data), "\n") {
			if strings.HasPrefix(line, "package ") {
				pkgName = strings.TrimSpace(strings.TrimPrefix(line, "package "))
				break
			}
		}
		if pkgName != "" {
			break
		}
	}
	if pkgName == "" {
		return "", fmt.Errorf("no harness files for package %s", pkgRel)
	}
	var tb strings.Builder
	fmt.Fprintf(&tb, "package %s\n\nimport (\n\t\"fmt\"\n\t\"os\"\n\t\"testing\"\n\n\trt \"%s/verifrt\"\n)\n\n", pkgName, ModulePath)
	tb.WriteString("var verifEntries = map[string]func(){\n")
	for _, f := range fns {
		fmt.Fprintf(&tb, "\t%q: %s,\n", f, f)
	}
	tb.WriteString("}\n\nfunc TestVerifReplay(t *testing.T) {\n\tname := os.Getenv(\"VERIF_ENTRY\")\n\tf := verifEntries[name]\n\tif f == nil {\n\t\tt.Fatalf(\"no entry %q\", name)\n\t}\n\tfailed, detail := rt.Run(name, f)\n\tfor _, o := range rt.Observed {\n\t\tfmt.Println(\"VERIF-OBS: \" + o)\n\t}\n\tif failed {\n\t\tfmt.Println(\"VERIF-REPLAY-FAILED: \" + detail)\n\t} else {\n\t\tfmt.Println(\"VERIF-REPLAY-OK\")\n\t}\n}\n")
	safe := strings.ReplaceAll(pkgRel, "/", "_")
	testFile := filepath.Join(r.Scratch, safe+"_replay_test.go")
	if err := os.WriteFile(testFile, []byte(tb.String()), 0o644); err != nil {
		return "", err
	}
	replace := map[string]string{}
	filepath.Walk(r.HarnessDir, func(path string, info os.FileInfo, err error) error {
		if err != nil || info.IsDir() || !strings.HasSuffix(path, ".go") {
			return nil
		}
		rel, _ := filepath.Rel(r.HarnessDir, path)
		// harness files placed inside library packages other than the one under test stay out of the native
		// build: they may import each other's packages (client harness -> server) and close an import cycle
		// through the library's own test files
		dir := filepath.ToSlash(filepath.Dir(rel))
		if dir != pkgRel && dir != "verifrt" && !strings.HasPrefix(dir, "zzverif/") && filepath.Base(rel) != "zz_verif_export.go" {
			return nil
		}
		replace[filepath.Join(r.Repo, rel)] = path
		return nil
	})
	replace[filepath.Join(r.Repo, pkgRel, "zz_verif_replay_test.go")] = testFile
	if r.RWInstrument {
		safe += "_rw"
		// every library package, not only the one under test: the client's locks sit above the cache's and the
		// server's above the database's, and a recursive read lock in a dependency is reported the same way
		var srcs []string
		filepath.Walk(r.Repo, func(path string, info os.FileInfo, err error) error {
			if err != nil {
				return nil
			}
			if info.IsDir() {
				if n := info.Name(); path != r.Repo && (strings.HasPrefix(n, ".") || n == "vendor" || n == "testdata" || n == "verifrt" || n == "zzverif") {
					return filepath.SkipDir
				}
				return nil
			}
			if strings.HasSuffix(path, ".go") {
				srcs = append(srcs, path)
			}
			return nil
		})
		for _, src := range srcs {
			if strings.HasSuffix(src, "_test.go") {
				continue
			}
			if _, over := replace[src]; over {
				continue
			}
			data, err := os.ReadFile(src)
			if err != nil || !bytes.Contains(data, []byte("sync.RWMutex")) {
				continue
			}
			text := strings.ReplaceAll(string(data), "sync.RWMutex", "verifrtmu.RWMutex")
			lines := strings.Split(text, "\n")
			for i, l := range lines {
				if strings.HasPrefix(l, "package ") {
					lines[i] = l + "; import verifrtmu \"" + ModulePath + "/verifrt\""
					break
				}
			}
			// the file imported "sync" for its RWMutex: keep that import used whatever else it declares
			text = strings.Join(lines, "\n") + "\nvar _ sync.Mutex\n"
			srcRel, _ := filepath.Rel(r.Repo, src)
			dst := filepath.Join(r.Scratch, safe+"_"+strings.ReplaceAll(srcRel, string(filepath.Separator), "_"))
			if err := os.WriteFile(dst, []byte(text), 0o644); err != nil {
				return "", err
			}
			replace[src] = dst
		}
	}
	ov, _ := json.Marshal(map[string]interface{}{"Replace": replace})
	ovFile := filepath.Join(r.Scratch, safe+"_overlay.json")
	os.WriteFile(ovFile, ov, 0o644)
	bin := filepath.Join(r.Scratch, safe+".test")
	ctx, cancel := context.WithTimeout(context.Background(), 5*time.Minute)
	defer cancel()
	cmd := osexec.CommandContext(ctx, "go", "test", "-c", "-vet=off", "-overlay", ovFile, "-o", bin, "./"+pkgRel)
	cmd.Dir = r.Repo
	cmd.Env = append(os.Environ(), "GOFLAGS=-mod=readonly", "GOPROXY=off", "GOSUMDB=off", "GOTOOLCHAIN=local")
	out, err := cmd.CombinedOutput()
	if err != nil {
		err = fmt.Errorf("native build of %s failed: %v\n%s", pkgRel, err, out)
	}
	r.built[bkey] = bin
	r.berr[bkey] = err
	return bin, err
}

// Run replays one path natively.
func (r *Replayer) Run(entry string, nondet []NondetRec, replayPath string) NativeResult {
	pkgRel, fn := splitEntry(entry)
	bin, err := r.build(pkgRel)
	if err != nil {
		return NativeResult{Err: err}
	}
	if replayPath == "" {
		f, err := os.CreateTemp(r.Scratch, "replay-*.json")
		if err != nil {
			return NativeResult{Err: err}
		}
		json.NewEncoder(f).Encode(map[string]interface{}{"harness": entry, "nondet": nondet})
		f.Close()
		replayPath = f.Name()
		defer os.Remove(replayPath)
	}
	ctx, cancel := context.WithTimeout(context.Background(), 60*time.Second)
	defer cancel()
	cmd := osexec.CommandContext(ctx, bin, "-test.run", "^TestVerifReplay$", "-test.v", "-test.timeout", "50s")
	cmd.Dir = filepath.Join(r.Repo)
	cmd.Env = append(os.Environ(), "VERIF_REPLAY="+replayPath, "VERIF_ENTRY="+fn)
	var buf bytes.Buffer
	cmd.Stdout = &buf
	cmd.Stderr = &buf
	runErr := cmd.Run()
	res := NativeResult{Output: buf.String()}
	done := false
	for _, line := range strings.Split(res.Output, "\n") {
		switch {
		case strings.HasPrefix(line, "VERIF-OBS: "):
			res.Observed = append(res.Observed, strings.TrimPrefix(line, "VERIF-OBS: "))
		case strings.HasPrefix(line, "VERIF-REPLAY-FAILED: "):
			res.Failed = true
			res.Detail = strings.TrimPrefix(line, "VERIF-REPLAY-FAILED: ")
			done = true
			if strings.Contains(res.Detail, "verifrt: replay") {
				// the native run asked for other nondeterministic values than the path recorded: not a confirmation
				res.Failed = false
				res.Err = fmt.Errorf("replay divergence: %s", res.Detail)
			}
		case strings.HasPrefix(line, "VERIF-REPLAY-OK"):
			done = true
		}
	}
	if !done {
		// the process died (fatal error, deadlock, timeout, os.Exit): that is a failure of the harness run
		tail := res.Output
		if len(tail) > 600 {
			tail = tail[len(tail)-600:]
		}
		if strings.Contains(res.Output, "verifrt: replay") {
			res.Err = fmt.Errorf("replay divergence: %s", tail)
			return res
		}
		res.Failed = true
		res.Detail = fmt.Sprintf("process died (%v): %s", runErr, tail)
	}
	return res
}

func (r *Replayer) Cleanup() {
	if r.Scratch != "" {
		os.RemoveAll(r.Scratch)
	}
}
