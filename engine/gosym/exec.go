// Derived from golang.org/x/tools/go/ssa/interp (BSD-3, see LICENSE.x-tools).

package gosym

import (
	"fmt"
	"os"
	"go/token"
	"go/types"
	"runtime"
	"slices"
	"strings"
	"sync"

	"golang.org/x/tools/go/ssa"
)

type continuation int

const (
	kNext continuation = iota
	kReturn
	kJump
)

// Program is the shared, read-only view of the loaded code.
type Program struct {
	prog       *ssa.Program
	sizes      types.Sizes
	modPrefix  string
	interpPkgs map[string]bool // foreign packages interpreted from SSA
	intrinsics map[string]intrinsic
	fnMeta     sync.Map // *ssa.Function -> *fnMeta
	modPkgs    []*ssa.Package
	rtErrStr   types.Type // runtime.errorString
	errorsStr  types.Type // *errors.errorString
	wrapErr    types.Type // *fmt.wrapError
	fakes      map[string]*fakeType
	byteSlice  types.Type
	anyType    types.Type
	errorIface types.Type
	lazyT      *fakeType
	methCache  sync.Map
	lookCache  sync.Map
	reCache    sync.Map
}

type intrinsic func(ex *exec, fr *frame, fn *ssa.Function, args []value) value

// intrinsicFn is a callable value implemented by the executor.
var debugStack = os.Getenv("GOSYM_STACK") != ""

type intrinsicFn struct {
	name string
	fn   func(ex *exec, fr *frame, args []value) value
}

type fnMeta struct {
	slots     map[ssa.Value]int // env slot of every SSA value defined in the function
	nslots    int
	intr      intrinsic
	interpret bool
	skipInit  bool
	name      string
	module    bool
}

// fakeType is the dynamic type of stubbed foreign objects held in interfaces.
type fakeType struct {
	name    string
	methods map[string]bool // nil = any method
}

func (f *fakeType) Underlying() types.Type { return f }
func (f *fakeType) String() string         { return f.name }
func (f *fakeType) implements(it *types.Interface) bool {
	if f.methods == nil {
		return true
	}
	for i := 0; i < it.NumMethods(); i++ {
		if !f.methods[it.Method(i).Name()] {
			return false
		}
	}
	return true
}

func identical(x, y types.Type) bool {
	if x == y {
		return true
	}
	if _, ok := x.(*fakeType); ok {
		return false
	}
	if _, ok := y.(*fakeType); ok {
		return false
	}
	return types.Identical(x, y)
}

func (p *Program) fake(name string) *fakeType {
	if f, ok := p.fakes[name]; ok {
		return f
	}
	panic("unregistered fake type " + name)
}

// ---------------------------------------------------------------------

type deferred struct {
	fn    value
	args  []value
	instr *ssa.Defer
	tail  *deferred
}

type frame struct {
	ex               *exec
	caller           *frame
	fn               *ssa.Function
	block, prevBlock *ssa.BasicBlock
	env              []value
	slots            map[ssa.Value]int
	locals           []value
	defers           *deferred
	result           value
	panicking        bool
	panic            interface{}
	phitemps         []value
	cur              ssa.Instruction
	callpos          token.Pos
}

func (fr *frame) get(key ssa.Value) value {
	switch key := key.(type) {
	case nil:
		return nil
	case *ssa.Function, *ssa.Builtin:
		return key
	case *ssa.Const:
		return constValue(key)
	case *ssa.Global:
		return fr.ex.global(key)
	}
	if i, ok := fr.slots[key]; ok {
		return fr.env[i]
	}
	panic(fmt.Sprintf("get: no value for %T: %v", key, key.Name()))
}

// noLazyInit: interpreted packages whose initialisers need reflection on runtime types (their uses are stubbed).
var noLazyInit = map[string]bool{"errors": true, "unicode": true}

func (ex *exec) global(g *ssa.Global) *value {
	if r, ok := ex.globals[g]; ok {
		return r
	}
	// package-level variables of interpreted foreign packages (strconv's tables, ...) are initialised on first use
	if g.Pkg != nil && ex.interpPkgs[g.Pkg.Pkg.Path()] && !noLazyInit[g.Pkg.Pkg.Path()] && !ex.pkgInited[g.Pkg] && !strings.HasPrefix(g.Name(), "init$") {
		if ex.pkgInited == nil {
			ex.pkgInited = map[*ssa.Package]bool{}
		}
		ex.pkgInited[g.Pkg] = true
		if init := g.Pkg.Func("init"); init != nil && init.Blocks != nil {
			ex.forceInit = true
			func() {
				defer func() { ex.forceInit = false }()
				ex.callSSA(nil, 0, init, nil, nil)
			}()
		}
		if r, ok := ex.globals[g]; ok {
			return r
		}
	}
	cell := zero(mustDeref(g.Type()))
	ex.globals[g] = &cell
	return &cell
}

// runDefer runs a deferred call d.
func (fr *frame) runDefer(d *deferred) {
	var ok bool
	defer func() {
		if !ok {
			r := recover()
			if ea, isAbort := r.(engineAbort); isAbort {
				panic(ea)
			}
			fr.panicking = true
			fr.panic = r
		}
	}()
	fr.ex.call(fr, d.instr.Pos(), d.fn, d.args)
	ok = true
}

func (fr *frame) runDefers() {
	for d := fr.defers; d != nil; d = d.tail {
		fr.runDefer(d)
	}
	fr.defers = nil
	if fr.panicking {
		panic(fr.panic) // new panic, or still panicking
	}
}

// lookupMethod returns the function implementing meth for dynamic type typ.
func (ex *exec) lookupMethod(typ types.Type, meth *types.Func) value {
	if ft, ok := typ.(*fakeType); ok {
		name := ft.name + "." + meth.Name()
		if in, ok := ex.intrinsics[name]; ok {
			return &intrinsicFn{name: name, fn: func(ex *exec, fr *frame, args []value) value { return in(ex, fr, nil, args) }}
		}
		if ft.name == "prometheus.metric" {
			sig := meth.Type().(*types.Signature)
			return &intrinsicFn{name: name, fn: func(ex *exec, fr *frame, args []value) value {
				res := sig.Results()
				switch res.Len() {
				case 0:
					return nil
				case 1:
					return ex.opaqueResult(res.At(0).Type())
				}
				t := make(tuple, res.Len())
				for i := range t {
					t[i] = ex.opaqueResult(res.At(i).Type())
				}
				return t
			}}
		}
		panic(unsupported("method %s on stubbed object", name))
	}
	type lk struct {
		t types.Type
		m *types.Func
	}
	key := lk{typ, meth}
	if v, ok := ex.lookCache.Load(key); ok {
		return v.(*ssa.Function)
	}
	f := ex.prog.LookupMethod(typ, meth.Pkg(), meth.Name())
	if f == nil {
		panic(fmt.Sprintf("method set for dynamic type %v does not contain %s", typ, meth))
	}
	ex.lookCache.Store(key, f)
	return f
}

func (ex *exec) truth(v value) bool {
	switch v := v.(type) {
	case bool:
		return v
	case sym:
		return ex.branch(v.t)
	}
	panic(fmt.Sprintf("truth: %T", v))
}

// visitInstr interprets a single ssa.Instruction within the activation record frame.
func (ex *exec) visitInstr(fr *frame, instr ssa.Instruction) continuation {
	switch instr := instr.(type) {
	case *ssa.DebugRef:
		// no-op

	case *ssa.UnOp:
		fr.env[fr.slots[instr]] = ex.unop(fr, instr, fr.get(instr.X))

	case *ssa.BinOp:
		fr.env[fr.slots[instr]] = ex.binop(instr.Op, instr.X.Type(), fr.get(instr.X), fr.get(instr.Y))

	case *ssa.Call:
		fn, args := ex.prepareCall(fr, &instr.Call)
		fr.env[fr.slots[instr]] = ex.call(fr, instr.Pos(), fn, args)

	case *ssa.ChangeInterface:
		fr.env[fr.slots[instr]] = fr.get(instr.X)

	case *ssa.ChangeType:
		fr.env[fr.slots[instr]] = fr.get(instr.X) // (can't fail)

	case *ssa.Convert:
		fr.env[fr.slots[instr]] = ex.conv(instr.Type(), instr.X.Type(), fr.get(instr.X))

	case *ssa.SliceToArrayPointer:
		fr.env[fr.slots[instr]] = sliceToArrayPointer(instr.Type(), instr.X.Type(), fr.get(instr.X))

	case *ssa.MakeInterface:
		fr.env[fr.slots[instr]] = iface{t: instr.X.Type(), v: fr.get(instr.X)}

	case *ssa.Extract:
		fr.env[fr.slots[instr]] = fr.get(instr.Tuple).(tuple)[instr.Index]

	case *ssa.Slice:
		fr.env[fr.slots[instr]] = ex.slice(fr.get(instr.X), fr.get(instr.Low), fr.get(instr.High), fr.get(instr.Max))

	case *ssa.Return:
		switch len(instr.Results) {
		case 0:
		case 1:
			fr.result = fr.get(instr.Results[0])
		default:
			res := make([]value, 0, len(instr.Results))
			for _, r := range instr.Results {
				res = append(res, fr.get(r))
			}
			fr.result = tuple(res)
		}
		fr.block = nil
		return kReturn

	case *ssa.RunDefers:
		fr.runDefers()

	case *ssa.Panic:
		panic(targetPanic{fr.get(instr.X)})

	case *ssa.Send:
		ex.chanSend(fr.get(instr.Chan).(*gochan), fr.get(instr.X))

	case *ssa.Store:
		addr := fr.get(instr.Addr).(*value)
		if addr == nil {
			panic(runtimeError("invalid memory address or nil pointer dereference"))
		}
		store(mustDeref(instr.Addr.Type()), addr, fr.get(instr.Val))

	case *ssa.If:
		succ := 1
		if ex.truth(fr.get(instr.Cond)) {
			succ = 0
		}
		fr.prevBlock, fr.block = fr.block, fr.block.Succs[succ]
		return kJump

	case *ssa.Jump:
		fr.prevBlock, fr.block = fr.block, fr.block.Succs[0]
		return kJump

	case *ssa.Defer:
		fn, args := ex.prepareCall(fr, &instr.Call)
		defers := &fr.defers
		if into := fr.get(instr.DeferStack); into != nil {
			defers = into.(**deferred)
		}
		*defers = &deferred{fn: fn, args: args, instr: instr, tail: *defers}

	case *ssa.Go:
		fn, args := ex.prepareCall(fr, &instr.Call)
		ex.spawn(fr, instr, fn, args)

	case *ssa.MakeChan:
		n := int(asInt64(fr.get(instr.Size)))
		fr.env[fr.slots[instr]] = &gochan{cap: n, elemT: instr.Type().Underlying().(*types.Chan).Elem()}

	case *ssa.Alloc:
		var addr *value
		if instr.Heap {
			addr = new(value)
			fr.env[fr.slots[instr]] = addr
		} else {
			addr = fr.env[fr.slots[instr]].(*value)
		}
		*addr = zero(mustDeref(instr.Type()))

	case *ssa.MakeSlice:
		tElt := instr.Type().Underlying().(*types.Slice).Elem()
		c := ex.concInt(fr.get(instr.Cap), 64)
		l := ex.concInt(fr.get(instr.Len), 64)
		if l < 0 || c < l {
			panic(runtimeError("makeslice: len out of range"))
		}
		if c > 1<<20 {
			panic(unsupported("makeslice: cap %d too large", c))
		}
		fr.env[fr.slots[instr]] = makeSlice(tElt, int(l), int(c))

	case *ssa.MakeMap:
		fr.env[fr.slots[instr]] = makeMap(instr.Type().Underlying().(*types.Map).Key())

	case *ssa.Range:
		fr.env[fr.slots[instr]] = ex.rangeIter(fr, fr.get(instr.X), instr.X.Type())

	case *ssa.Next:
		fr.env[fr.slots[instr]] = fr.get(instr.Iter).(iter).next()

	case *ssa.FieldAddr:
		p := fr.get(instr.X).(*value)
		if p == nil {
			panic(runtimeError("invalid memory address or nil pointer dereference"))
		}
		fr.env[fr.slots[instr]] = &(*p).(structure)[instr.Field]

	case *ssa.Field:
		fr.env[fr.slots[instr]] = fr.get(instr.X).(structure)[instr.Field]

	case *ssa.IndexAddr:
		x := fr.get(instr.X)
		switch x := x.(type) {
		case []value:
			idx := ex.concInt(fr.get(instr.Index), len(x))
			if idx < 0 || idx >= int64(len(x)) {
				panic(runtimeError(fmt.Sprintf("index out of range [%d] with length %d", idx, len(x))))
			}
			fr.env[fr.slots[instr]] = &x[idx]
		case *value: // *array
			if x == nil {
				panic(runtimeError("invalid memory address or nil pointer dereference"))
			}
			a := (*x).(array)
			idx := ex.concInt(fr.get(instr.Index), len(a))
			if idx < 0 || idx >= int64(len(a)) {
				panic(runtimeError(fmt.Sprintf("index out of range [%d] with length %d", idx, len(a))))
			}
			fr.env[fr.slots[instr]] = &a[idx]
		case *jsonBlob:
			b := x.bytes()
			idx := ex.concInt(fr.get(instr.Index), len(b))
			if idx < 0 || idx >= int64(len(b)) {
				panic(runtimeError("index out of range"))
			}
			fr.env[fr.slots[instr]] = &b[idx]
		default:
			panic(fmt.Sprintf("unexpected x type in IndexAddr: %T", x))
		}

	case *ssa.Index:
		x := fr.get(instr.X)
		switch x := x.(type) {
		case array:
			idx := ex.concInt(fr.get(instr.Index), len(x))
			if idx < 0 || idx >= int64(len(x)) {
				panic(runtimeError("index out of range"))
			}
			fr.env[fr.slots[instr]] = x[idx]
		case string:
			idx := ex.concInt(fr.get(instr.Index), len(x))
			if idx < 0 || idx >= int64(len(x)) {
				panic(runtimeError(fmt.Sprintf("index out of range [%d] with length %d", idx, len(x))))
			}
			fr.env[fr.slots[instr]] = x[idx]
		case sym:
			panic(unsupported("indexing a symbolic string"))
		default:
			panic(fmt.Sprintf("unexpected x type in Index: %T", x))
		}

	case *ssa.Lookup:
		x := fr.get(instr.X)
		switch m := x.(type) {
		case *omap:
			v, ok := ex.mapLookup(m, fr.get(instr.Index))
			if !ok {
				v = zero(instr.X.Type().Underlying().(*types.Map).Elem())
			}
			if instr.CommaOk {
				fr.env[fr.slots[instr]] = tuple{v, ok}
			} else {
				fr.env[fr.slots[instr]] = v
			}
		case string:
			idx := ex.concInt(fr.get(instr.Index), len(m))
			if idx < 0 || idx >= int64(len(m)) {
				panic(runtimeError("index out of range"))
			}
			fr.env[fr.slots[instr]] = m[idx]
		default:
			panic(fmt.Sprintf("unexpected x type in Lookup: %T", x))
		}

	case *ssa.MapUpdate:
		m, _ := fr.get(instr.Map).(*omap)
		v := fr.get(instr.Value)
		if mt, ok := instr.Map.Type().Underlying().(*types.Map); ok && needsCopy(mt.Elem()) {
			v = copyVal(mt.Elem(), v)
		}
		ex.mapInsert(m, fr.get(instr.Key), v)

	case *ssa.TypeAssert:
		fr.env[fr.slots[instr]] = ex.typeAssert(instr, fr.get(instr.X))

	case *ssa.MakeClosure:
		bindings := make([]value, 0, len(instr.Bindings))
		for _, binding := range instr.Bindings {
			bindings = append(bindings, fr.get(binding))
		}
		fr.env[fr.slots[instr]] = &closure{instr.Fn.(*ssa.Function), bindings}

	case *ssa.Phi:
		panic("unreachable: phi")

	case *ssa.Select:
		fr.env[fr.slots[instr]] = ex.selectInstr(fr, instr)

	default:
		panic(fmt.Sprintf("unexpected instruction: %T", instr))
	}
	return kNext
}

// prepareCall determines the function value and argument values for a call.
func (ex *exec) prepareCall(fr *frame, call *ssa.CallCommon) (fn value, args []value) {
	v := fr.get(call.Value)
	if call.Method == nil {
		fn = v
	} else {
		recv := ex.force(v.(iface))
		if recv.t == nil {
			panic(runtimeError("invalid memory address or nil pointer dereference (method " + call.Method.Name() + " invoked on nil interface)"))
		}
		fn = ex.lookupMethod(recv.t, call.Method)
		args = append(args, recv.v)
	}
	for _, arg := range call.Args {
		args = append(args, fr.get(arg))
	}
	return
}

// call interprets a call to a function (function, builtin or closure).
func (ex *exec) call(caller *frame, callpos token.Pos, fn value, args []value) value {
	switch fn := fn.(type) {
	case *ssa.Function:
		if fn == nil {
			panic(runtimeError("invalid memory address or nil pointer dereference (call of nil func)"))
		}
		return ex.callSSA(caller, callpos, fn, args, nil)
	case *closure:
		return ex.callSSA(caller, callpos, fn.Fn, args, fn.Env)
	case *ssa.Builtin:
		return ex.callBuiltin(caller, callpos, fn, args)
	case *intrinsicFn:
		return fn.fn(ex, caller, args)
	}
	panic(fmt.Sprintf("cannot call %T", fn))
}

func (p *Program) meta(fn *ssa.Function) *fnMeta {
	if m, ok := p.fnMeta.Load(fn); ok {
		return m.(*fnMeta)
	}
	m := &fnMeta{}
	base := fn
	if o := fn.Origin(); o != nil {
		base = o
	}
	m.name = base.String()
	pkgPath := ""
	if base.Pkg != nil {
		pkgPath = base.Pkg.Pkg.Path()
	} else if base.Object() != nil && base.Object().Pkg() != nil {
		pkgPath = base.Object().Pkg().Path()
	}
	m.module = strings.HasPrefix(pkgPath, p.modPrefix)
	if in, ok := p.intrinsics[m.name]; ok && fn.Parent() == nil {
		m.intr = in
	} else if opaquePkg(pkgPath) {
		m.intr = opaqueCall
	} else if fn.Synthetic != "" && base.Pkg == nil && fn.Blocks != nil && !strings.HasPrefix(fn.Synthetic, "instance of") {
		// wrappers, bound-method closures, thunks
		m.interpret = true
	} else if m.module {
		m.interpret = true
	} else if p.interpPkgs[pkgPath] || (fn.Parent() != nil && p.meta(rootFn(fn)).interpret) {
		m.interpret = fn.Blocks != nil
	}
	if base.Name() == "init" && base.Parent() == nil && base.Signature.Recv() == nil && !m.module {
		m.skipInit = true
	}
	p.fnMeta.Store(fn, m)
	return m
}

var slotMu sync.Mutex

// numberSlots assigns an env slot to every SSA value defined in fn (params, free vars, locals, instructions).
func (p *Program) numberSlots(fn *ssa.Function, m *fnMeta) {
	slotMu.Lock()
	defer slotMu.Unlock()
	if m.slots != nil {
		return
	}
	slots := map[ssa.Value]int{}
	n := 0
	add := func(v ssa.Value) {
		if _, ok := slots[v]; !ok {
			slots[v] = n
			n++
		}
	}
	for _, x := range fn.Params {
		add(x)
	}
	for _, x := range fn.FreeVars {
		add(x)
	}
	for _, x := range fn.Locals {
		add(x)
	}
	for _, b := range fn.Blocks {
		for _, in := range b.Instrs {
			if v, ok := in.(ssa.Value); ok {
				add(v)
			}
		}
	}
	m.nslots = n
	m.slots = slots
}

func rootFn(fn *ssa.Function) *ssa.Function {
	for fn.Parent() != nil {
		fn = fn.Parent()
	}
	return fn
}

// callSSA interprets a call to function fn with arguments args, and lexical environment env.
func (ex *exec) callSSA(caller *frame, callpos token.Pos, fn *ssa.Function, args []value, env []value) value {
	m := ex.meta(fn)
	if m.skipInit {
		if !ex.forceInit || fn.Pkg == nil || !ex.interpPkgs[fn.Pkg.Pkg.Path()] || ex.pkgInitRan[fn] || noLazyInit[fn.Pkg.Pkg.Path()] {
			return nil
		}
		// initialisation of an interpreted foreign package, requested by a first use of one of its variables
		if ex.pkgInitRan == nil {
			ex.pkgInitRan = map[*ssa.Function]bool{}
		}
		ex.pkgInitRan[fn] = true
		ex.pkgInited[fn.Pkg] = true
		m = &fnMeta{name: m.name, interpret: true, slots: m.slots, nslots: m.nslots}
	}
	if m.intr != nil {
		r := m.intr(ex, caller, fn, args)
		if _, fall := r.(notHandled); !fall {
			return r
		}
		if fn.Blocks == nil {
			panic(unsupported("callee %s (intrinsic declined, no body)", m.name))
		}
	} else if !m.interpret || fn.Blocks == nil {
		panic(unsupported("callee %s", m.name))
	}
	ex.depth++
	if ex.depth > 400 {
		panic(engineAbort{"incomplete", "call depth exceeded in " + m.name})
	}
	defer func() { ex.depth-- }()
	if m.module {
		ex.cover[fn]++
	}

	fr := &frame{ex: ex, caller: caller, fn: fn, callpos: callpos}
	if m.slots == nil {
		ex.numberSlots(fn, m)
	}
	fr.slots = m.slots
	fr.env = make([]value, m.nslots)
	fr.block = fn.Blocks[0]
	fr.locals = make([]value, len(fn.Locals))
	for i, l := range fn.Locals {
		fr.locals[i] = zero(mustDeref(l.Type()))
		fr.env[fr.slots[l]] = &fr.locals[i]
	}
	for i, p := range fn.Params {
		fr.env[fr.slots[p]] = args[i]
	}
	for i, fv := range fn.FreeVars {
		fr.env[fr.slots[fv]] = env[i]
	}
	for fr.block != nil {
		ex.runFrame(fr)
	}
	return fr.result
}

// runFrame executes SSA instructions starting at fr.block and continuing until a return, a panic, or a recovered panic.
func (ex *exec) runFrame(fr *frame) {
	defer func() {
		if fr.block == nil {
			return // normal return
		}
		r := recover()
		if ea, ok := r.(engineAbort); ok {
			if debugStack && (ea.kind == "unsupported" || ea.kind == "incomplete") && strings.Count(ea.reason, " <- ") < 12 {
				ea.reason += " <- " + fr.fn.String()
			}
			panic(ea)
		}
		if _, ok := r.(internalError); ok {
			panic(r)
		}
		if ex.panicSite == nil {
			ex.notePanicSite(fr, r)
		}
		fr.panicking = true
		fr.panic = r
		fr.runDefers()
		fr.block = fr.fn.Recover
	}()

	for {
		nonPhis := executePhis(fr)
		for _, instr := range nonPhis {
			ex.steps++
			if ex.steps > ex.maxSteps {
				panic(engineAbort{"incomplete", "step budget exceeded"})
			}
			fr.cur = instr
			if ex.visitInstr(fr, instr) == kReturn {
				return
			}
		}
	}
}

type internalError struct{ msg string }

// notHandled is returned by an intrinsic that declines a call; the function body is interpreted instead.
type notHandled struct{}

// executePhis executes the phi-nodes at the start of the current block and returns the non-phi instructions.
func executePhis(fr *frame) []ssa.Instruction {
	firstNonPhi := -1
	for i, instr := range fr.block.Instrs {
		if _, ok := instr.(*ssa.Phi); !ok {
			firstNonPhi = i
			break
		}
	}
	nonPhis := fr.block.Instrs[firstNonPhi:]
	if firstNonPhi > 0 {
		phis := fr.block.Instrs[:firstNonPhi]
		predIndex := slices.Index(fr.block.Preds, fr.prevBlock)
		fr.phitemps = fr.phitemps[:0]
		for _, phi := range phis {
			phi := phi.(*ssa.Phi)
			fr.phitemps = append(fr.phitemps, fr.get(phi.Edges[predIndex]))
		}
		for i, phi := range phis {
			fr.env[fr.slots[phi.(*ssa.Phi)]] = fr.phitemps[i]
		}
	}
	return nonPhis
}

// panicValue converts a Go-level panic payload into the target-level value recover() returns.
func (ex *exec) panicValue(p interface{}) value {
	switch p := p.(type) {
	case targetPanic:
		return p.v
	case runtimeError:
		return iface{ex.rtErrStr, string(p)}
	case runtime.Error:
		s := strings.TrimPrefix(p.Error(), "runtime error: ")
		return iface{ex.rtErrStr, s}
	case string:
		return iface{ex.rtErrStr, p}
	default:
		return iface{ex.rtErrStr, fmt.Sprint(p)}
	}
}

// doRecover implements the recover() built-in.
func (ex *exec) doRecover(caller *frame) value {
	if caller != nil && !caller.panicking &&
		caller.caller != nil && caller.caller.panicking {
		caller.caller.panicking = false
		p := caller.caller.panic
		caller.caller.panic = nil
		ex.panicSite = nil
		return ex.panicValue(p)
	}
	return iface{}
}

// panicSiteInfo describes where a target panic was first raised.
type panicSiteInfo struct {
	src   string // source text of the line in fn where the panic surfaced
	fn    string // innermost module (non-harness) function on the stack
	inner string // innermost function
	pos   string
	msg   string
	stack []string
}

func (ex *exec) notePanicSite(fr *frame, r interface{}) {
	info := &panicSiteInfo{inner: fr.fn.String()}
	if fr.cur != nil {
		info.pos = ex.prog.Fset.Position(fr.cur.Pos()).String()
	}
	switch p := r.(type) {
	case targetPanic:
		info.msg = "panic: " + ex.describePanic(p.v)
	case runtimeError:
		info.msg = "runtime error: " + string(p)
	case error:
		info.msg = p.Error()
	default:
		info.msg = fmt.Sprint(r)
	}
	for f := fr; f != nil; f = f.caller {
		name := f.fn.String()
		pos := ""
		if f.cur != nil && f.cur.Pos().IsValid() {
			ps := ex.prog.Fset.Position(f.cur.Pos())
			pos = fmt.Sprintf("%s:%d", shortFile(ps.Filename), ps.Line)
		}
		info.stack = append(info.stack, name+" "+pos)
		if info.fn == "" && ex.meta(f.fn).module && !ex.isHarnessFn(f.fn) {
			info.fn = name
			if pos != "" {
				info.pos = pos
				ps := ex.prog.Fset.Position(f.cur.Pos())
				info.src = sourceLine(ps.Filename, ps.Line)
			}
		}
	}
	ex.panicSite = info
}

func shortFile(f string) string {
	if i := strings.Index(f, "/repo/"); i >= 0 {
		return f[i+6:]
	}
	return f
}

func (ex *exec) describePanic(v value) string {
	if i, ok := v.(iface); ok {
		if s, ok := i.v.(string); ok {
			return s
		}
		return typeString(i.t)
	}
	return toString(v)
}

func (p *Program) isHarnessFn(fn *ssa.Function) bool {
	pos := fn.Pos()
	if !pos.IsValid() {
		if fn.Parent() != nil {
			return p.isHarnessFn(fn.Parent())
		}
		return false
	}
	f := p.prog.Fset.Position(pos).Filename
	return strings.Contains(f, "zz_verif") || strings.Contains(f, "/verifrt/") || strings.Contains(f, "/zzverif/")
}

var srcCache sync.Map

func sourceLine(file string, line int) string {
	var lines []string
	if v, ok := srcCache.Load(file); ok {
		lines = v.([]string)
	} else {
		data, err := os.ReadFile(file)
		if err != nil {
			return ""
		}
		lines = strings.Split(string(data), "\n")
		srcCache.Store(file, lines)
	}
	if line < 1 || line > len(lines) {
		return ""
	}
	return strings.Join(strings.Fields(lines[line-1]), " ")
}

// panicClass reduces a panic message to its class (no input-dependent detail).
func panicClass(msg string) string {
	for _, c := range []string{"interface conversion", "index out of range", "nil pointer dereference", "slice bounds out of range",
		"integer divide by zero", "hash of unhashable type", "assignment to entry in nil map", "comparing uncomparable",
		"negative shift amount", "close of closed channel", "close of nil channel", "send on closed channel", "reflect:", "makeslice"} {
		if strings.Contains(msg, c) {
			return c
		}
	}
	msg = sanitizeMsg(msg)
	if len(msg) > 60 {
		msg = msg[:60]
	}
	return msg
}
