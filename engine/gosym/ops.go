// Derived from golang.org/x/tools/go/ssa/interp (BSD-3, see LICENSE.x-tools).

package gosym

import (
	"fmt"
	"go/constant"
	"go/token"
	"go/types"
	"math"
	"strings"
	"unicode/utf8"

	"golang.org/x/tools/go/ssa"
)

// If the target program panics, the interpreter panics with this type.
type targetPanic struct {
	v value
}

func (p targetPanic) String() string { return toString(p.v) }

// engineAbort ends the current path for a reason that is not the target's behaviour.
type engineAbort struct {
	kind   string // unsupported | incomplete | infeasible | assume | done
	reason string
}

func unsupported(format string, args ...interface{}) engineAbort {
	return engineAbort{"unsupported", fmt.Sprintf(format, args...)}
}

func mustDeref(t types.Type) types.Type {
	if p, ok := t.Underlying().(*types.Pointer); ok {
		return p.Elem()
	}
	panic(fmt.Sprintf("mustDeref: %s is not a pointer", t))
}

// constValue returns the value of the constant with the dynamic type tag appropriate for c.Type().
func constValue(c *ssa.Const) value {
	if c.Value == nil {
		return zero(c.Type()) // typed zero
	}
	if t, ok := c.Type().Underlying().(*types.Basic); ok {
		switch t.Kind() {
		case types.Bool, types.UntypedBool:
			return constant.BoolVal(c.Value)
		case types.Int, types.UntypedInt:
			return int(c.Int64())
		case types.Int8:
			return int8(c.Int64())
		case types.Int16:
			return int16(c.Int64())
		case types.Int32, types.UntypedRune:
			return int32(c.Int64())
		case types.Int64:
			return c.Int64()
		case types.Uint:
			return uint(c.Uint64())
		case types.Uint8:
			return uint8(c.Uint64())
		case types.Uint16:
			return uint16(c.Uint64())
		case types.Uint32:
			return uint32(c.Uint64())
		case types.Uint64:
			return c.Uint64()
		case types.Uintptr:
			return uintptr(c.Uint64())
		case types.Float32:
			return float32(c.Float64())
		case types.Float64, types.UntypedFloat:
			return c.Float64()
		case types.Complex64:
			return complex64(c.Complex128())
		case types.Complex128, types.UntypedComplex:
			return c.Complex128()
		case types.String, types.UntypedString:
			if c.Value.Kind() == constant.String {
				return constant.StringVal(c.Value)
			}
			return string(rune(c.Int64()))
		}
	}
	panic(fmt.Sprintf("constValue: %s", c))
}

// ---------------------------------------------------------------------
// kinds and lifting

func kindOfValue(v value) types.BasicKind {
	switch v := v.(type) {
	case bool:
		return types.Bool
	case int:
		return types.Int
	case int8:
		return types.Int8
	case int16:
		return types.Int16
	case int32:
		return types.Int32
	case int64:
		return types.Int64
	case uint:
		return types.Uint
	case uint8:
		return types.Uint8
	case uint16:
		return types.Uint16
	case uint32:
		return types.Uint32
	case uint64:
		return types.Uint64
	case uintptr:
		return types.Uintptr
	case float32:
		return types.Float32
	case float64:
		return types.Float64
	case string:
		return types.String
	case sym:
		return v.k
	}
	return types.Invalid
}

func sortOfKind(k types.BasicKind) Sort {
	switch k {
	case types.Bool:
		return SBool
	case types.Int8, types.Uint8:
		return SBV8
	case types.Int16, types.Uint16:
		return SBV16
	case types.Int32, types.Uint32:
		return SBV32
	case types.Int, types.Int64, types.Uint, types.Uint64, types.Uintptr:
		return SBV64
	case types.Float64:
		return SF64
	case types.String:
		return SStr
	}
	panic(unsupported("no SMT sort for kind %v", k))
}

func signedKind(k types.BasicKind) bool {
	switch k {
	case types.Int, types.Int8, types.Int16, types.Int32, types.Int64:
		return true
	}
	return false
}

func isIntKind(k types.BasicKind) bool {
	switch k {
	case types.Int, types.Int8, types.Int16, types.Int32, types.Int64,
		types.Uint, types.Uint8, types.Uint16, types.Uint32, types.Uint64, types.Uintptr:
		return true
	}
	return false
}

// toTerm lifts a scalar value to a term.
func (ex *exec) toTerm(v value) *Term {
	tt := ex.tt
	switch v := v.(type) {
	case sym:
		return v.t
	case bool:
		return tt.Bool(v)
	case int:
		return tt.BV(SBV64, uint64(v))
	case int8:
		return tt.BV(SBV8, uint64(v))
	case int16:
		return tt.BV(SBV16, uint64(v))
	case int32:
		return tt.BV(SBV32, uint64(v))
	case int64:
		return tt.BV(SBV64, uint64(v))
	case uint:
		return tt.BV(SBV64, uint64(v))
	case uint8:
		return tt.BV(SBV8, uint64(v))
	case uint16:
		return tt.BV(SBV16, uint64(v))
	case uint32:
		return tt.BV(SBV32, uint64(v))
	case uint64:
		return tt.BV(SBV64, v)
	case uintptr:
		return tt.BV(SBV64, uint64(v))
	case float64:
		return tt.F64(v)
	case string:
		return tt.Str(v)
	}
	panic(unsupported("toTerm: %T", v))
}

// fromTerm converts a term back into an executor value of kind k (concrete when constant).
func fromTerm(t *Term, k types.BasicKind) value {
	if !t.isConst() {
		return sym{t, k}
	}
	switch k {
	case types.Bool:
		return t.cv.(bool)
	case types.Float64:
		return t.cv.(float64)
	case types.String:
		return t.cv.(string)
	}
	u := t.cv.(uint64)
	switch k {
	case types.Int:
		return int(u)
	case types.Int8:
		return int8(u)
	case types.Int16:
		return int16(u)
	case types.Int32:
		return int32(u)
	case types.Int64:
		return int64(u)
	case types.Uint:
		return uint(u)
	case types.Uint8:
		return uint8(u)
	case types.Uint16:
		return uint16(u)
	case types.Uint32:
		return uint32(u)
	case types.Uint64:
		return u
	case types.Uintptr:
		return uintptr(u)
	}
	panic(fmt.Sprintf("fromTerm: kind %v", k))
}

func boolVal(t *Term) value { return fromTerm(t, types.Bool) }

// asInt64 converts x, which must be a concrete integer, to an int64.
func asInt64(x value) int64 {
	switch x := x.(type) {
	case int:
		return int64(x)
	case int8:
		return int64(x)
	case int16:
		return int64(x)
	case int32:
		return int64(x)
	case int64:
		return x
	case uint:
		return int64(x)
	case uint8:
		return int64(x)
	case uint16:
		return int64(x)
	case uint32:
		return int64(x)
	case uint64:
		return int64(x)
	case uintptr:
		return int64(x)
	case sym:
		panic(unsupported("symbolic integer used where a concrete one is required (length/index/size)"))
	}
	panic(fmt.Sprintf("cannot convert %T to int64", x))
}

// concInt concretises an integer that is used as an index/length: if symbolic, forks over [0,limit].
func (ex *exec) concInt(x value, limit int) int64 {
	s, ok := x.(sym)
	if !ok {
		return asInt64(x)
	}
	// options: 0..limit, and "other" (negative or > limit)
	srt := s.t.sort
	var opts []*Term
	other := ex.tt.Bool(true)
	for i := 0; i <= limit; i++ {
		c := ex.tt.Eq(s.t, ex.tt.BV(srt, uint64(i)))
		opts = append(opts, c)
		other = ex.tt.And(other, ex.tt.Not(c))
	}
	opts = append(opts, other)
	i := ex.decide("concint", opts)
	if i > limit {
		return int64(limit) + 1 // out of range marker
	}
	return int64(i)
}

type integer interface {
	~int | ~int8 | ~int16 | ~int32 | ~int64 | ~uint | ~uint8 | ~uint16 | ~uint32 | ~uint64 | ~uintptr
}

func intOp[T integer](op token.Token, x, y T) value {
	switch op {
	case token.ADD:
		return x + y
	case token.SUB:
		return x - y
	case token.MUL:
		return x * y
	case token.QUO:
		if y == 0 {
			panic(runtimeError("integer divide by zero"))
		}
		return x / y
	case token.REM:
		if y == 0 {
			panic(runtimeError("integer divide by zero"))
		}
		return x % y
	case token.AND:
		return x & y
	case token.OR:
		return x | y
	case token.XOR:
		return x ^ y
	case token.AND_NOT:
		return x &^ y
	case token.LSS:
		return x < y
	case token.LEQ:
		return x <= y
	case token.GTR:
		return x > y
	case token.GEQ:
		return x >= y
	}
	panic(fmt.Sprintf("intOp: bad op %s", op))
}

func shiftOp[T integer](op token.Token, x T, y uint64) value {
	if op == token.SHL {
		return x << y
	}
	return x >> y
}

func floatOp[T float32 | float64](op token.Token, x, y T) value {
	switch op {
	case token.ADD:
		return x + y
	case token.SUB:
		return x - y
	case token.MUL:
		return x * y
	case token.QUO:
		return x / y
	case token.LSS:
		return x < y
	case token.LEQ:
		return x <= y
	case token.GTR:
		return x > y
	case token.GEQ:
		return x >= y
	}
	panic(fmt.Sprintf("floatOp: bad op %s", op))
}

// binop implements all arithmetic and logical binary operators.
func (ex *exec) binop(op token.Token, t types.Type, x, y value) value {
	switch op {
	case token.EQL:
		return boolVal(ex.eqnilTerm(t, x, y))
	case token.NEQ:
		return boolVal(ex.tt.Not(ex.eqnilTerm(t, x, y)))
	}
	if isSym(x) || isSym(y) {
		return ex.symBinop(op, x, y)
	}
	if op == token.SHL || op == token.SHR {
		var sh uint64
		switch y := y.(type) {
		case int, int8, int16, int32, int64:
			s := asInt64(y)
			if s < 0 {
				panic(runtimeError("negative shift amount"))
			}
			sh = uint64(s)
		default:
			sh = uint64(asInt64(y))
		}
		switch x := x.(type) {
		case int:
			return shiftOp(op, x, sh)
		case int8:
			return shiftOp(op, x, sh)
		case int16:
			return shiftOp(op, x, sh)
		case int32:
			return shiftOp(op, x, sh)
		case int64:
			return shiftOp(op, x, sh)
		case uint:
			return shiftOp(op, x, sh)
		case uint8:
			return shiftOp(op, x, sh)
		case uint16:
			return shiftOp(op, x, sh)
		case uint32:
			return shiftOp(op, x, sh)
		case uint64:
			return shiftOp(op, x, sh)
		case uintptr:
			return shiftOp(op, x, sh)
		}
	}
	switch x := x.(type) {
	case int:
		return intOp(op, x, y.(int))
	case int8:
		return intOp(op, x, y.(int8))
	case int16:
		return intOp(op, x, y.(int16))
	case int32:
		return intOp(op, x, y.(int32))
	case int64:
		return intOp(op, x, y.(int64))
	case uint:
		return intOp(op, x, y.(uint))
	case uint8:
		return intOp(op, x, y.(uint8))
	case uint16:
		return intOp(op, x, y.(uint16))
	case uint32:
		return intOp(op, x, y.(uint32))
	case uint64:
		return intOp(op, x, y.(uint64))
	case uintptr:
		return intOp(op, x, y.(uintptr))
	case float32:
		return floatOp(op, x, y.(float32))
	case float64:
		return floatOp(op, x, y.(float64))
	case complex128:
		yy := y.(complex128)
		switch op {
		case token.ADD:
			return x + yy
		case token.SUB:
			return x - yy
		case token.MUL:
			return x * yy
		case token.QUO:
			return x / yy
		}
	case string:
		yy := y.(string)
		switch op {
		case token.ADD:
			return x + yy
		case token.LSS:
			return x < yy
		case token.LEQ:
			return x <= yy
		case token.GTR:
			return x > yy
		case token.GEQ:
			return x >= yy
		}
	}
	panic(fmt.Sprintf("invalid binary op: %T %s %T", x, op, y))
}

func (ex *exec) symBinop(op token.Token, x, y value) value {
	tt := ex.tt
	k := kindOfValue(x)
	if k == types.Invalid || (op != token.SHL && op != token.SHR && kindOfValue(y) != k) {
		panic(unsupported("symBinop %s on %T,%T", op, x, y))
	}
	a, b := ex.toTerm(x), ex.toTerm(y)
	switch {
	case k == types.String:
		switch op {
		case token.ADD:
			return fromTerm(tt.Concat(a, b), k)
		case token.LSS:
			return boolVal(tt.StrLt(a, b))
		case token.GTR:
			return boolVal(tt.StrLt(b, a))
		case token.LEQ:
			return boolVal(tt.Not(tt.StrLt(b, a)))
		case token.GEQ:
			return boolVal(tt.Not(tt.StrLt(a, b)))
		}
	case k == types.Float64:
		switch op {
		case token.ADD:
			return fromTerm(tt.FBin("fp.add RNE", a, b), k)
		case token.SUB:
			return fromTerm(tt.FBin("fp.sub RNE", a, b), k)
		case token.MUL:
			return fromTerm(tt.FBin("fp.mul RNE", a, b), k)
		case token.QUO:
			return fromTerm(tt.FBin("fp.div RNE", a, b), k)
		case token.LSS:
			return boolVal(tt.FCmp("fp.lt", a, b))
		case token.LEQ:
			return boolVal(tt.FCmp("fp.leq", a, b))
		case token.GTR:
			return boolVal(tt.FCmp("fp.gt", a, b))
		case token.GEQ:
			return boolVal(tt.FCmp("fp.geq", a, b))
		}
	case isIntKind(k):
		sg := signedKind(k)
		pick := func(s, u string) string {
			if sg {
				return s
			}
			return u
		}
		switch op {
		case token.ADD:
			return fromTerm(tt.BVBin("bvadd", a, b), k)
		case token.SUB:
			return fromTerm(tt.BVBin("bvsub", a, b), k)
		case token.MUL:
			return fromTerm(tt.BVBin("bvmul", a, b), k)
		case token.QUO, token.REM:
			zeroT := tt.BV(a.sort, 0)
			if ex.branch(tt.Eq(b, zeroT)) {
				panic(runtimeError("integer divide by zero"))
			}
			if op == token.QUO {
				return fromTerm(tt.BVBin(pick("bvsdiv", "bvudiv"), a, b), k)
			}
			return fromTerm(tt.BVBin(pick("bvsrem", "bvurem"), a, b), k)
		case token.AND:
			return fromTerm(tt.BVBin("bvand", a, b), k)
		case token.OR:
			return fromTerm(tt.BVBin("bvor", a, b), k)
		case token.XOR:
			return fromTerm(tt.BVBin("bvxor", a, b), k)
		case token.AND_NOT:
			return fromTerm(tt.BVBin("bvand", a, tt.BVNot(b)), k)
		case token.SHL, token.SHR:
			ky := kindOfValue(y)
			if signedKind(ky) {
				if ex.branch(tt.BVCmp("bvslt", b, tt.BV(b.sort, 0))) {
					panic(runtimeError("negative shift amount"))
				}
			}
			b = tt.BVResize(b, a.sort, false)
			if op == token.SHL {
				return fromTerm(tt.BVBin("bvshl", a, b), k)
			}
			return fromTerm(tt.BVBin(pick("bvashr", "bvlshr"), a, b), k)
		case token.LSS:
			return boolVal(tt.BVCmp(pick("bvslt", "bvult"), a, b))
		case token.LEQ:
			return boolVal(tt.BVCmp(pick("bvsle", "bvule"), a, b))
		case token.GTR:
			return boolVal(tt.BVCmp(pick("bvsgt", "bvugt"), a, b))
		case token.GEQ:
			return boolVal(tt.BVCmp(pick("bvsge", "bvuge"), a, b))
		}
	case k == types.Bool:
		// only && / || reach here through SSA as control flow; AND/OR on bools do not occur.
	}
	panic(unsupported("symBinop %s on kind %v", op, k))
}

func (ex *exec) unop(fr *frame, instr *ssa.UnOp, x value) value {
	switch instr.Op {
	case token.ARROW: // receive
		return ex.chanRecv(x.(*gochan), instr.X.Type().Underlying().(*types.Chan).Elem(), instr.CommaOk)
	case token.SUB:
		switch x := x.(type) {
		case int:
			return -x
		case int8:
			return -x
		case int16:
			return -x
		case int32:
			return -x
		case int64:
			return -x
		case uint:
			return -x
		case uint8:
			return -x
		case uint16:
			return -x
		case uint32:
			return -x
		case uint64:
			return -x
		case uintptr:
			return -x
		case float32:
			return -x
		case float64:
			return -x
		case complex128:
			return -x
		case sym:
			if x.k == types.Float64 {
				return fromTerm(ex.tt.FNeg(x.t), x.k)
			}
			return fromTerm(ex.tt.BVNeg(x.t), x.k)
		}
	case token.MUL:
		p := x.(*value)
		if p == nil {
			panic(runtimeError("invalid memory address or nil pointer dereference"))
		}
		return load(mustDeref(instr.X.Type()), p)
	case token.NOT:
		if s, ok := x.(sym); ok {
			return boolVal(ex.tt.Not(s.t))
		}
		return !x.(bool)
	case token.XOR:
		switch x := x.(type) {
		case int:
			return ^x
		case int8:
			return ^x
		case int16:
			return ^x
		case int32:
			return ^x
		case int64:
			return ^x
		case uint:
			return ^x
		case uint8:
			return ^x
		case uint16:
			return ^x
		case uint32:
			return ^x
		case uint64:
			return ^x
		case uintptr:
			return ^x
		case sym:
			return fromTerm(ex.tt.BVNot(x.t), x.k)
		}
	}
	panic(fmt.Sprintf("invalid unary op %s %T", instr.Op, x))
}

// typeAssert checks whether dynamic type of itf is instr.AssertedType.
func (ex *exec) typeAssert(instr *ssa.TypeAssert, x value) value {
	itf := ex.force(x.(iface))
	var v value
	fail := 0
	if itf.t == nil {
		fail = 1
	} else if idst, ok := instr.AssertedType.Underlying().(*types.Interface); ok {
		v = itf
		if !ex.implements(itf.t, idst) {
			fail = 2
		}
	} else if identical(itf.t, instr.AssertedType) {
		v = itf.v // extract value
	} else {
		fail = 3
	}
	if fail != 0 {
		if !instr.CommaOk {
			switch fail {
			case 1:
				panic(runtimeError(fmt.Sprintf("interface conversion: interface is nil, not %s", typeString(instr.AssertedType))))
			case 2:
				panic(runtimeError(fmt.Sprintf("interface conversion: %v is not %v: missing method", typeString(itf.t), typeString(instr.AssertedType))))
			default:
				panic(runtimeError(fmt.Sprintf("interface conversion: interface {} is %s, not %s", typeString(itf.t), typeString(instr.AssertedType))))
			}
		}
		return tuple{zero(instr.AssertedType), false}
	}
	if instr.CommaOk {
		return tuple{v, true}
	}
	return v
}

// implements reports whether dynamic type t implements interface it (fake types included).
func (ex *exec) implements(t types.Type, it *types.Interface) bool {
	if it.NumMethods() == 0 {
		return true
	}
	if ft, ok := t.(*fakeType); ok {
		return ft.implements(it)
	}
	return types.Implements(t, it)
}

// ---------------------------------------------------------------------
// slices

var classToSize = []int{0, 8, 16, 24, 32, 48, 64, 80, 96, 112, 128, 144, 160, 176, 192, 208, 224, 240, 256, 288, 320, 352, 384, 416, 448, 480, 512, 576, 640, 704, 768, 896, 1024, 1152, 1280, 1408, 1536, 1792, 2048, 2304, 2688, 3072, 3200, 3456, 4096, 4864, 5376, 6144, 6528, 6784, 6912, 8192, 9472, 9728, 10240, 10880, 12288, 13568, 14336, 16384, 18432, 19072, 20480, 21760, 24576, 27264, 28672, 32768}

func hasPointers(t types.Type) bool {
	switch u := t.Underlying().(type) {
	case *types.Basic:
		return u.Kind() == types.String || u.Kind() == types.UnsafePointer
	case *types.Array:
		return hasPointers(u.Elem())
	case *types.Struct:
		for i := 0; i < u.NumFields(); i++ {
			if hasPointers(u.Field(i).Type()) {
				return true
			}
		}
		return false
	}
	return true
}

func roundupsize(size int, noscan bool) int {
	req := size
	if !noscan && req > 512 {
		req += 8
	}
	if req <= 32768 {
		for _, c := range classToSize[1:] {
			if c >= req {
				if !noscan && size > 512 {
					return c - 8
				}
				return c
			}
		}
	}
	return (size + 8191) &^ 8191
}

// growCap mirrors runtime.growslice's capacity computation (go1.23, amd64).
func (p *Program) growCap(elemT types.Type, oldCap, newLen int) int {
	newcap := oldCap
	doublecap := newcap + newcap
	if newLen > doublecap {
		newcap = newLen
	} else {
		const threshold = 256
		if oldCap < threshold {
			newcap = doublecap
		} else {
			for {
				newcap += (newcap + 3*threshold) >> 2
				if uint(newcap) >= uint(newLen) {
					break
				}
			}
		}
	}
	esz := int(p.sizes.Sizeof(elemT))
	if esz == 0 {
		return newcap
	}
	mem := roundupsize(newcap*esz, !hasPointers(elemT))
	return mem / esz
}

// appendValues implements append(s, elems...) with Go's aliasing and growth.
// needsCopy reports element types whose values are mutable aggregates (struct / array spines).
func needsCopy(t types.Type) bool {
	if atomicStruct(t) {
		return false
	}
	switch t.Underlying().(type) {
	case *types.Struct, *types.Array:
		return true
	}
	return false
}

func (p *Program) appendValues(elemT types.Type, s []value, elems []value) []value {
	if len(elems) == 0 {
		return s
	}
	if needsCopy(elemT) {
		// element values are copied into the slice (struct and array spines must not be shared)
		cp := make([]value, len(elems))
		for i, e := range elems {
			cp[i] = copyVal(elemT, e)
		}
		elems = cp
	}
	n := len(s) + len(elems)
	if n <= cap(s) {
		r := s[:n]
		copy(r[len(s):], elems)
		return r
	}
	nc := p.growCap(elemT, cap(s), n)
	r := make([]value, n, nc)
	copy(r, s)
	copy(r[len(s):], elems)
	for i := n; i < nc; i++ {
		r[:nc][i] = zero(elemT)
	}
	return r
}

// makeSlice allocates a zeroed slice.
func makeSlice(elemT types.Type, ln, cp int) []value {
	s := make([]value, cp)
	for i := range s {
		s[i] = zero(elemT)
	}
	return s[:ln]
}

// slice returns x[lo:hi:max].  Any of lo, hi and max may be nil.
func (ex *exec) slice(x, lo, hi, max value) value {
	var Len, Cap int
	switch x := x.(type) {
	case string:
		Len = len(x)
		Cap = Len
	case []value:
		Len = len(x)
		Cap = cap(x)
	case *value: // *array
		if x == nil {
			panic(runtimeError("invalid memory address or nil pointer dereference"))
		}
		a := (*x).(array)
		Len = len(a)
		Cap = cap(a)
	case sym:
		panic(unsupported("slicing a symbolic string"))
	case *jsonBlob:
		b := x.bytes()
		return ex.slice(b, lo, hi, max)
	}
	l := int64(0)
	if lo != nil {
		l = ex.concInt(lo, Cap)
	}
	h := int64(Len)
	if hi != nil {
		h = ex.concInt(hi, Cap)
	}
	m := int64(Cap)
	if max != nil {
		m = ex.concInt(max, Cap)
	}
	if l < 0 || h < l || m < h || m > int64(Cap) {
		panic(runtimeError(fmt.Sprintf("slice bounds out of range [%d:%d:%d] with capacity %d", l, h, m, Cap)))
	}
	switch x := x.(type) {
	case string:
		if h > int64(Len) {
			panic(runtimeError("slice bounds out of range"))
		}
		return x[l:h]
	case []value:
		return x[l:h:m]
	case *value: // *array
		a := (*x).(array)
		return []value(a)[l:h:m]
	}
	panic(fmt.Sprintf("slice: unexpected X type: %T", x))
}

// ---------------------------------------------------------------------
// conversions

func widen(x value) value {
	switch y := x.(type) {
	case bool, int64, uint64, float64, complex128, string:
		return x
	case int:
		return int64(y)
	case int8:
		return int64(y)
	case int16:
		return int64(y)
	case int32:
		return int64(y)
	case uint:
		return uint64(y)
	case uint8:
		return uint64(y)
	case uint16:
		return uint64(y)
	case uint32:
		return uint64(y)
	case uintptr:
		return uint64(y)
	case float32:
		return float64(y)
	case complex64:
		return complex128(y)
	}
	panic(fmt.Sprintf("cannot widen %T", x))
}

func numTo(kind types.BasicKind, x value) value {
	switch x := x.(type) {
	case int64:
		switch kind {
		case types.Int:
			return int(x)
		case types.Int8:
			return int8(x)
		case types.Int16:
			return int16(x)
		case types.Int32:
			return int32(x)
		case types.Int64:
			return int64(x)
		case types.Uint:
			return uint(x)
		case types.Uint8:
			return uint8(x)
		case types.Uint16:
			return uint16(x)
		case types.Uint32:
			return uint32(x)
		case types.Uint64:
			return uint64(x)
		case types.Uintptr:
			return uintptr(x)
		case types.Float32:
			return float32(x)
		case types.Float64:
			return float64(x)
		}
	case uint64:
		switch kind {
		case types.Int:
			return int(x)
		case types.Int8:
			return int8(x)
		case types.Int16:
			return int16(x)
		case types.Int32:
			return int32(x)
		case types.Int64:
			return int64(x)
		case types.Uint:
			return uint(x)
		case types.Uint8:
			return uint8(x)
		case types.Uint16:
			return uint16(x)
		case types.Uint32:
			return uint32(x)
		case types.Uint64:
			return uint64(x)
		case types.Uintptr:
			return uintptr(x)
		case types.Float32:
			return float32(x)
		case types.Float64:
			return float64(x)
		}
	case float64:
		switch kind {
		case types.Int:
			return int(x)
		case types.Int8:
			return int8(x)
		case types.Int16:
			return int16(x)
		case types.Int32:
			return int32(x)
		case types.Int64:
			return int64(x)
		case types.Uint:
			return uint(x)
		case types.Uint8:
			return uint8(x)
		case types.Uint16:
			return uint16(x)
		case types.Uint32:
			return uint32(x)
		case types.Uint64:
			return uint64(x)
		case types.Uintptr:
			return uintptr(x)
		case types.Float32:
			return float32(x)
		case types.Float64:
			return float64(x)
		}
	}
	panic(fmt.Sprintf("numTo: %T -> %v", x, kind))
}

// conv converts the value x of type t_src to type t_dst and returns the result.
func (ex *exec) conv(t_dst, t_src types.Type, x value) value {
	ut_src := t_src.Underlying()
	ut_dst := t_dst.Underlying()

	if s, ok := x.(sym); ok {
		bd, ok := ut_dst.(*types.Basic)
		if !ok {
			if _, isSlice := ut_dst.(*types.Slice); isSlice && s.k == types.String {
				// the text of a JSON tree, turned back into bytes
				for _, b := range ex.blobStrs {
					if b.term == s.t {
						return &jsonBlob{node: b.node}
					}
				}
			}
			panic(unsupported("conversion of symbolic %v to %s", s.k, t_dst))
		}
		dk := bd.Kind()
		switch {
		case s.k == dk:
			return x
		case s.k == types.String && dk == types.String:
			return x
		case isIntKind(s.k) && isIntKind(dk):
			return fromTerm(ex.tt.BVResize(s.t, sortOfKind(dk), signedKind(s.k)), dk)
		case isIntKind(s.k) && dk == types.Float64:
			return fromTerm(ex.tt.IntToF(s.t, signedKind(s.k)), dk)
		case s.k == types.Float64 && isIntKind(dk):
			return fromTerm(ex.tt.FToInt(s.t, sortOfKind(dk), signedKind(dk)), dk)
		case s.k == types.Float64 && dk == types.Float64:
			return x
		}
		panic(unsupported("conversion of symbolic %v to %s", s.k, t_dst))
	}

	switch ut_src := ut_src.(type) {
	case *types.Pointer:
		if b, ok := ut_dst.(*types.Basic); ok && b.Kind() == types.UnsafePointer {
			return x
		}
		if _, ok := ut_dst.(*types.Pointer); ok {
			return x
		}
	case *types.Slice:
		if _, ok := ut_dst.(*types.Slice); ok {
			return x
		}
		if jb, ok := x.(*jsonBlob); ok {
			if jb.node.hasSymLeaf() {
				return ex.blobString(jb.node)
			}
			return jb.text()
		}
		// []byte or []rune -> string
		switch ut_src.Elem().Underlying().(*types.Basic).Kind() {
		case types.Byte:
			x := x.([]value)
			b := make([]byte, 0, len(x))
			for i := range x {
				b = append(b, x[i].(byte))
			}
			return string(b)
		case types.Rune:
			x := x.([]value)
			r := make([]rune, 0, len(x))
			for i := range x {
				r = append(r, x[i].(rune))
			}
			return string(r)
		}
	case *types.Basic:
		if ut_src.Kind() == types.UnsafePointer {
			return x
		}
		x = widen(x)
		// integer -> string?
		if ut_src.Info()&types.IsInteger != 0 {
			if ut_dst, ok := ut_dst.(*types.Basic); ok && ut_dst.Kind() == types.String {
				switch v := x.(type) {
				case int64:
					return string(rune(v))
				case uint64:
					return string(rune(v))
				}
			}
		}
		// string -> []rune, []byte or string?
		if s, ok := x.(string); ok {
			switch ut_dst := ut_dst.(type) {
			case *types.Slice:
				var res []value
				switch ut_dst.Elem().Underlying().(*types.Basic).Kind() {
				case types.Rune:
					res = make([]value, 0, utf8.RuneCountInString(s))
					for _, r := range s {
						res = append(res, r)
					}
					return res
				case types.Byte:
					res = make([]value, len(s))
					for i := 0; i < len(s); i++ {
						res[i] = s[i]
					}
					return res
				}
			case *types.Basic:
				if ut_dst.Kind() == types.String {
					return s
				}
			}
			break
		}
		if ut_src.Info()&types.IsComplex != 0 {
			switch ut_dst.(*types.Basic).Kind() {
			case types.Complex64:
				return complex64(x.(complex128))
			case types.Complex128:
				return x.(complex128)
			}
			break
		}
		if ut_src.Info()&types.IsNumeric != 0 {
			if bd, ok := ut_dst.(*types.Basic); ok {
				return numTo(bd.Kind(), x)
			}
		}
		if ut_src.Kind() == types.Bool {
			return x
		}
	}
	panic(fmt.Sprintf("unsupported conversion: %s  -> %s, dynamic type %T", t_src, t_dst, x))
}

func sliceToArrayPointer(t_dst, t_src types.Type, x value) value {
	if _, ok := t_src.Underlying().(*types.Slice); ok {
		if ptr, ok := t_dst.Underlying().(*types.Pointer); ok {
			if arr, ok := ptr.Elem().Underlying().(*types.Array); ok {
				x := x.([]value)
				if arr.Len() > int64(len(x)) {
					panic(runtimeError("cannot convert slice to array pointer: length mismatch"))
				}
				if x == nil {
					return zero(t_dst)
				}
				v := value(array(x[:arr.Len()]))
				return &v
			}
		}
	}
	panic(fmt.Sprintf("unsupported conversion: %s  -> %s, dynamic type %T", t_src, t_dst, x))
}

// ---------------------------------------------------------------------
// builtins

func (ex *exec) callBuiltin(caller *frame, callpos token.Pos, fn *ssa.Builtin, args []value) value {
	switch fn.Name() {
	case "append":
		if len(args) == 1 {
			return args[0]
		}
		st := fn.Type().(*types.Signature).Params().At(0).Type().Underlying().(*types.Slice)
		arg0, ok := args[0].([]value)
		if !ok {
			if jb, isBlob := args[0].(*jsonBlob); isBlob {
				arg0 = jb.bytes()
			} else {
				panic(fmt.Sprintf("append: bad first arg %T", args[0]))
			}
		}
		switch s := args[1].(type) {
		case string:
			els := make([]value, len(s))
			for i := 0; i < len(s); i++ {
				els[i] = s[i]
			}
			return ex.appendValues(st.Elem(), arg0, els)
		case sym:
			panic(unsupported("append of symbolic string bytes"))
		case *jsonBlob:
			return ex.appendValues(st.Elem(), arg0, s.bytes())
		}
		return ex.appendValues(st.Elem(), arg0, args[1].([]value))

	case "copy": // copy([]T, []T) int or copy([]byte, string) int
		src := args[1]
		if s, ok := src.(string); ok {
			bs := make([]value, len(s))
			for i := 0; i < len(s); i++ {
				bs[i] = s[i]
			}
			src = bs
		}
		if jb, ok := src.(*jsonBlob); ok {
			src = jb.bytes()
		}
		dst := args[0].([]value)
		srcv := src.([]value)
		if st, ok := fn.Type().(*types.Signature).Params().At(0).Type().Underlying().(*types.Slice); ok && needsCopy(st.Elem()) {
			n := len(dst)
			if len(srcv) < n {
				n = len(srcv)
			}
			tmp := make([]value, n)
			for i := 0; i < n; i++ {
				tmp[i] = copyVal(st.Elem(), srcv[i])
			}
			return copy(dst, tmp)
		}
		return copy(dst, srcv)

	case "close":
		c := args[0].(*gochan)
		if c == nil {
			panic(runtimeError("close of nil channel"))
		}
		if c.closed {
			panic(runtimeError("close of closed channel"))
		}
		c.closed = true
		return nil

	case "delete":
		m, _ := args[0].(*omap)
		ex.mapDelete(m, args[1])
		return nil

	case "print", "println":
		return nil

	case "len":
		switch x := args[0].(type) {
		case string:
			return len(x)
		case sym:
			return fromTerm(ex.tt.StrLen(x.t), types.Int)
		case array:
			return len(x)
		case *value:
			return len((*x).(array))
		case []value:
			return len(x)
		case *omap:
			return x.len()
		case *gochan:
			if x == nil {
				return 0
			}
			return len(x.buf)
		case *jsonBlob:
			if x == nil {
				return 0
			}
			return len(x.bytes())
		default:
			panic(fmt.Sprintf("len: illegal operand: %T", x))
		}

	case "cap":
		switch x := args[0].(type) {
		case array:
			return cap(x)
		case *value:
			return cap((*x).(array))
		case []value:
			return cap(x)
		case *gochan:
			if x == nil {
				return 0
			}
			return x.cap
		default:
			panic(fmt.Sprintf("cap: illegal operand: %T", x))
		}

	case "min", "max":
		x := args[0]
		for _, a := range args[1:] {
			var less value
			if fn.Name() == "min" {
				less = ex.binop(token.LSS, nil, a, x)
			} else {
				less = ex.binop(token.GTR, nil, a, x)
			}
			if ex.truth(less) {
				x = a
			}
		}
		return x

	case "real":
		switch c := args[0].(type) {
		case complex64:
			return real(c)
		case complex128:
			return real(c)
		}
	case "imag":
		switch c := args[0].(type) {
		case complex64:
			return imag(c)
		case complex128:
			return imag(c)
		}
	case "complex":
		switch f := args[0].(type) {
		case float32:
			return complex(f, args[1].(float32))
		case float64:
			return complex(f, args[1].(float64))
		}

	case "panic":
		panic(targetPanic{args[0]})

	case "recover":
		return ex.doRecover(caller)

	case "ssa:wrapnilchk":
		recv := args[0]
		if recv.(*value) == nil {
			panic(runtimeError(fmt.Sprintf("value method %v.%v called using nil pointer", args[1], args[2])))
		}
		return recv

	case "ssa:deferstack":
		return &caller.defers
	}
	panic("unknown built-in: " + fn.Name())
}

func (ex *exec) rangeIter(fr *frame, x value, t types.Type) iter {
	switch x := x.(type) {
	case *omap:
		return &mapIter{entries: ex.mapOrder(fr, x.live())}
	case string:
		return &stringIter{Reader: strings.NewReader(x)}
	case sym:
		panic(unsupported("range over symbolic string"))
	}
	panic(fmt.Sprintf("cannot range over %T", x))
}

var _ = math.MaxInt64
